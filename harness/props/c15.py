"""C15 — copy, freeze and thaw have value semantics."""
import random

import core
from props.parser_common import chunk_jobs

THEOREMS_DEPEND_ON = []
COMP_HEAP = 62
NAMES = ['channel', 'note', 'velocity', 'value', 'control', 'program', 'pitch', 'frame_type', 'frame_value', 'pos', 'song', 'time', 'tempo',
         'number', 'port', 'numerator', 'denominator', 'clocks_per_click', 'notated_32nd_notes_per_beat', 'type_byte', 'hours', 'minutes',
         'seconds', 'frames', 'sub_frames']
AID = {n: i for i, n in enumerate(NAMES)}
# (class, type name, attributes with ranges)
TYPES = [
    (0, 'note_on', {'channel': (0, 15), 'note': (0, 127), 'velocity': (0, 127), 'time': (0, 1000)}),
    (0, 'control_change', {'channel': (0, 15), 'control': (0, 127), 'value': (0, 127), 'time': (0, 1000)}),
    (0, 'pitchwheel', {'channel': (0, 15), 'pitch': (-8192, 8191), 'time': (0, 1000)}),
    (0, 'songpos', {'pos': (0, 16383), 'time': (0, 1000)}),
    (0, 'clock', {'time': (0, 1000)}),
    (1, 'set_tempo', {'tempo': (0, 16777215), 'time': (0, 1000)}),
    (1, 'sequence_number', {'number': (0, 65535), 'time': (0, 1000)}),
    (1, 'time_signature', {'numerator': (0, 255), 'denominator': (4, 4), 'clocks_per_click': (0, 255), 'notated_32nd_notes_per_beat': (0, 255), 'time': (0, 1000)}),
    (1, 'end_of_track', {'time': (0, 1000)}),
    (2, 'unknown_meta', {'type_byte': (0, 255), 'time': (0, 1000)}),
]


def build(ti, kv):
    import mido
    cls, name, attrs = TYPES[ti]
    kw = {NAMES[a]: v for a, v in kv}
    if cls == 0:
        return mido.Message(name, **kw)
    if cls == 1:
        return mido.MetaMessage(name, **kw)
    return mido.UnknownMetaMessage(kw.get('type_byte', 0x60), data=(1, 2), time=kw.get('time', 0))


def dump(o):
    import mido
    from mido.frozen import is_frozen
    d = vars(o)
    cls = 2 if isinstance(o, mido.UnknownMetaMessage) else (1 if isinstance(o, mido.MetaMessage) else 0)
    ti = next(i for i, t in enumerate(TYPES) if t[1] == d['type'])
    items = sorted((AID[k], int(v)) for k, v in d.items() if k in AID)
    flat = [x for kv in items for x in kv]
    return [cls, 1 if is_frozen(o) else 0, ti, len(flat)] + flat


def dump_heap(objs):
    out = [len(objs)]
    for o in objs:
        out += dump(o)
    return out


def canon_exn(e):
    return [-1, 1] if isinstance(e, (ValueError, TypeError, AttributeError)) and not isinstance(e, LookupError) else [-1, core.exn_code(e)]


def impl_hist(case):
    import mido
    from mido.frozen import freeze_message, thaw_message, is_frozen
    objs, out, i, fail = [], [], 0, None

    def ref(x):
        return None if x < 0 else objs[x]

    def loc_of(o):
        if o is None:
            return -1
        for k, p in enumerate(objs):
            if p is o:
                return k
        objs.append(o)
        return len(objs) - 1
    while i < len(case):
        k = case[i]
        before = [dict(vars(o)) for o in objs]
        touched = None
        try:
            if k == 0:
                c, ti, n = case[i + 1:i + 4]
                kv = [(case[i + 4 + 2 * j], case[i + 5 + 2 * j]) for j in range(n)]
                i += 4 + 2 * n
                o = build(ti, kv)
                out += [0, loc_of(o)]
            elif k == 1:
                x, n = case[i + 1:i + 3]
                kv = [(case[i + 3 + 2 * j], case[i + 4 + 2 * j]) for j in range(n)]
                i += 3 + 2 * n
                src = objs[x]
                c = src.copy(**{NAMES[a]: v for a, v in kv})
                out += [0, loc_of(c)]
                if fail is None:
                    if c is src or type(c) is not type(src):
                        fail = ('copy-class-or-identity', 'copy of %r gave %r (%s)' % (src, c, type(c).__name__))
                    else:
                        want = dict(vars(src)); want.update({NAMES[a]: v for a, v in kv})
                        if dict(vars(c)) != want:
                            fail = ('copy-value', 'copy of %r with %r gave %r' % (src, kv, c))
                        elif not kv and not (c == src):
                            fail = ('copy-value', 'copy() of %r is not equal to it' % (src,))
            elif k == 2:
                x = case[i + 1]; i += 2
                src = ref(x)
                f = freeze_message(src)
                out += [0, loc_of(f)]
                if fail is None and src is not None:
                    if not is_frozen(f) or not (f == src) or (is_frozen(src) and f is not src):
                        fail = ('freeze', 'freeze_message(%r) gave %r' % (src, f))
                    else:
                        try:
                            hk = hash(f)
                            d = {f: 1}
                            twin = freeze_message(thaw_message(f))
                            if hash(twin) != hk or d.get(twin) != 1:
                                fail = ('hash', 'equal frozen messages %r hash differently or miss as dictionary keys' % (f,))
                        except Exception as e:  # noqa: BLE001
                            fail = ('hash-raises', 'hash(%r) raised %r' % (f, e))
                if fail is None and src is None and f is not None:
                    fail = ('freeze-none', 'freeze_message(None) gave %r' % (f,))
            elif k == 3:
                x = case[i + 1]; i += 2
                src = ref(x)
                t = thaw_message(src)
                out += [0, loc_of(t)]
                if fail is None and src is not None:
                    plain = {'FrozenMessage': 'Message', 'FrozenMetaMessage': 'MetaMessage', 'FrozenUnknownMetaMessage': 'UnknownMetaMessage'}
                    want = plain.get(type(src).__name__, type(src).__name__)
                    if is_frozen(t) or t is src or type(t).__name__ != want or not (t == src):
                        fail = ('thaw', 'thaw_message(%r) gave %r (%s)' % (src, t, type(t).__name__))
                if fail is None and src is None and t is not None:
                    fail = ('thaw-none', 'thaw_message(None) gave %r' % (t,))
            elif k == 4:
                x, a, v = case[i + 1:i + 4]; i += 4
                touched = x
                setattr(objs[x], NAMES[a], v)
                out += [0, -2]
            elif k == 5:
                x, a = case[i + 1:i + 3]; i += 3
                touched = x
                delattr(objs[x], NAMES[a])
                out += [0, -2]
            else:
                raise RuntimeError('bad op')
        except Exception as e:  # noqa: BLE001
            out += canon_exn(e)
            if fail is None and canon_exn(e) != [-1, 1]:
                fail = ('raises:' + type(e).__name__, 'op %d of %r raised %r' % (k, case[:40], e))
            if k == 0:
                i = i if i > 0 else len(case)
        # independence: nothing but the touched object changes, and a frozen object never changes
        if fail is None:
            for idx, (b, o) in enumerate(zip(before, objs)):
                if dict(vars(o)) != b and (idx != touched or is_frozen(o)):
                    fail = ('independence', 'op %d on object %r changed object %d from %r to %r' % (k, touched, idx, b, dict(vars(o))))
        out += [-8] + dump_heap(objs) + [-9]
    return out, fail, 'ops'


def job(j):
    tag, comp, cases = j
    return tag, core.eval_cases(comp, cases, impl_hist, repeat=40)


def random_history(rng):
    case, objs = [], []   # objs: (type index, frozen?)
    for _ in range(rng.randrange(3, 14)):
        r = rng.random()
        if not objs or r < 0.2:
            ti = rng.randrange(len(TYPES))
            cls, name, attrs = TYPES[ti]
            kv = [(AID[a], rng.randint(lo, hi)) for a, (lo, hi) in attrs.items()]
            case += [0, cls, ti, len(kv)] + [x for p in kv for x in p]
            objs.append([ti, False])
        else:
            x = rng.randrange(len(objs))
            ti, frozen = objs[x]
            attrs = TYPES[ti][2]
            if r < 0.4:
                names = [a for a in attrs if a != 'type_byte']
                kv = [(AID[a], rng.randint(*attrs[a])) for a in rng.sample(names, rng.randrange(0, min(3, len(names)) + 1))]
                case += [1, x, len(kv)] + [y for p in kv for y in p]
                objs.append([ti, frozen])
            elif r < 0.55:
                tgt = rng.choice([x, x, x, -1])
                case += [2, tgt]
                if tgt >= 0 and not frozen:
                    objs.append([ti, True])
            elif r < 0.7:
                tgt = rng.choice([x, x, x, -1])
                case += [3, tgt]
                if tgt >= 0:
                    objs.append([ti, False])
            elif r < 0.93:
                a = rng.choice([a for a in attrs if a != 'type_byte'] + (['note'] if rng.random() < 0.1 and TYPES[ti][0] != 2 else []))
                lo, hi = attrs.get(a, (0, 127))
                case += [4, x, AID[a], rng.randint(lo, hi)]
            else:
                case += [5, x, AID[rng.choice(list(attrs))]]
    return case


def _sample_messages(rng, n):
    import mido
    from mido.messages.specs import SPEC_BY_TYPE
    from mido.midifiles.meta import _META_SPEC_BY_TYPE
    msgs = []
    for name in sorted(SPEC_BY_TYPE):
        for _ in range(n):
            kw = {}
            for a in SPEC_BY_TYPE[name]['value_names']:
                if a == 'data':
                    kw[a] = [rng.randrange(128) for _ in range(rng.randrange(4))]
                elif a == 'pitch':
                    kw[a] = rng.randint(-8192, 8191)
                elif a == 'pos':
                    kw[a] = rng.randrange(16384)
                elif a in ('channel', 'frame_value'):
                    kw[a] = rng.randrange(16)
                elif a == 'frame_type':
                    kw[a] = rng.randrange(8)
                else:
                    kw[a] = rng.randrange(128)
            msgs.append(mido.Message(name, time=rng.choice([0, 1, 2.5, 480]), **kw))
    for name in sorted(_META_SPEC_BY_TYPE):
        msgs.append(mido.MetaMessage(name, time=rng.choice([0, 7, 1.25])))
    msgs += [mido.MetaMessage('set_tempo', tempo=rng.randrange(1 << 24)), mido.MetaMessage('text', text='abc'),
             mido.MetaMessage('sequencer_specific', data=[1, 2]), mido.UnknownMetaMessage(0x60, data=[1, 2], time=1),
             mido.UnknownMetaMessage(0x7e, time=0)]
    return msgs


def _fresh(m, ov):
    import mido
    d = dict(vars(m))
    d.update(ov)
    if isinstance(m, mido.UnknownMetaMessage):
        d.pop('type', None)
        return type(m)(**d)
    t = d.pop('type')
    return type(m)(t, **d)


def _outcome(f):
    try:
        return ('ok', f())
    except (ValueError, TypeError) as e:
        return ('err', type(e).__name__)
    except Exception as e:  # noqa: BLE001
        return ('other', repr(e))


def copy_vs_constructor(out, rng):
    """copy(**overrides), valid AND invalid override sets: the outcome is that of constructing a fresh message of the same class
    from the original's attributes updated with the overrides (equal message of the same class, or the same kind of exception)."""
    from mido.frozen import freeze_message
    bad = ['x', None, 1.5, 2.0, 1j, [1], (1,), -1, 128, 256, 16384, 1 << 40, True, b'ab', '', [300], (-1,)]
    good = [0, 1, 5, 100, 'C', 'abc', [1, 2], (3,), 2.5, 24]
    n = dist_ok = dist_err = 0
    for m in _sample_messages(rng, 1 if out.tier == 'quick' else 12):
        for fm in (m, freeze_message(m)):
            names = [k for k in vars(m) if k != 'type'] + ['bogus', 'note']
            sets = [{a: v} for a in names for v in bad + good]
            for _ in range(20):
                sets.append({a: rng.choice(bad + good + good) for a in rng.sample(names, min(len(names), rng.randrange(2, 4)))})
            # a value that was accepted, then its twins of another type (equal to it, and hashing like it): what was accepted before must
            # not vouch for them
            from decimal import Decimal
            from fractions import Fraction
            for a, v in list(vars(m).items()):
                if a == 'type':
                    continue
                if isinstance(v, int) and not isinstance(v, bool):
                    for w in (v, 5, 100):
                        sets += [{a: w}, {a: float(w)}, {a: Fraction(w)}, {a: Decimal(w)}, {a: complex(w)}]
                elif isinstance(v, (tuple, list)) and a == 'data':
                    sets += [{a: (4, 5, 6)}, {a: (4.0, 5.0, 6.0)}, {a: [Fraction(4), 5, 6]}, {a: tuple(v)}, {a: tuple(float(x) for x in v) or (0.0,)}]
            for ov in sets:
                n += 1
                c = _outcome(lambda: fm.copy(**ov))
                f = _outcome(lambda: _fresh(fm, ov))
                same = c[0] == f[0] and c[0] != 'other' and (c[0] != 'ok' or (c[1] == f[1] and type(c[1]) is type(f[1]) and c[1] is not fm))
                dist_ok += c[0] == 'ok'
                dist_err += c[0] == 'err'
                if not same:
                    out.failures.append(('copy-vs-constructor', '%r.copy(**%r) gave %r but constructing it afresh gives %r' % (fm, ov, c, f),
                                         {'component': 'copy-vs-constructor', 'message': repr(fm), 'overrides': repr(ov)}))
                elif f[0] == 'ok':
                    # valid values: skipping the checks must not change the result (what the values are stored as included)
                    n += 1
                    c2 = _outcome(lambda: fm.copy(skip_checks=True, **ov))
                    if not (c2[0] == 'ok' and c2[1] == f[1] and type(c2[1]) is type(f[1]) and c2[1] is not fm
                            and {k: type(v) for k, v in vars(c2[1]).items()} == {k: type(v) for k, v in vars(f[1]).items()}):
                        out.failures.append(('copy-skip-checks', '%r.copy(skip_checks=True, **%r) gave %r (%r) but constructing it afresh gives %r'
                                             % (fm, ov, c2, vars(c2[1]) if c2[0] == 'ok' else None, f), {'component': 'copy-vs-constructor', 'message': repr(fm), 'overrides': repr(ov)}))
    # an original that carries a value no constructor would take (it was made with skip_checks=True, the library's own way of building
    # messages from data it has not looked at): a checked copy(**overrides) of it is still 'a freshly constructed message with those
    # values' - refused unless the overrides replace what is wrong
    import mido
    unchecked = [(mido.Message('note_on', note=60, velocity=300, skip_checks=True), [{'time': 1}, {'note': 5}, {'channel': 2, 'time': 0.5}, {'velocity': 7}, {'velocity': 7, 'time': 2}]),
                 (mido.Message('control_change', channel=16, skip_checks=True), [{'value': 1}, {'time': 3}, {'channel': 15}, {'control': 9, 'value': 9}]),
                 (mido.Message('pitchwheel', pitch=9000, skip_checks=True), [{'time': 1}, {'channel': 1}, {'pitch': -8192}]),
                 (mido.Message('sysex', data=(1, 300), skip_checks=True), [{'time': 2}, {'data': (1, 2)}]),
                 (mido.Message('program_change', program=1.0, skip_checks=True), [{'channel': 3}, {'program': 1}])]
    for m0, ovs in unchecked:
        for ov in ovs:
            n += 1
            c = _outcome(lambda: m0.copy(**ov))
            f = _outcome(lambda: _fresh(m0, ov))
            if not (c[0] == f[0] and c[0] != 'other' and (c[0] != 'ok' or (c[1] == f[1] and type(c[1]) is type(f[1])))):
                out.failures.append(('copy-vs-constructor', 'copy(**%r) of a message made with skip_checks=True (%r) gave %r but constructing it afresh gives %r' % (ov, vars(m0), c, f),
                                     {'component': 'copy-vs-constructor', 'message': repr(vars(m0)), 'overrides': repr(ov)}))
    out.evaluations += n
    out.components['copy-vs-constructor (valid and invalid override sets, implementation against the property statement)'] = {
        'cases': n, 'copies_made': dist_ok, 'rejected': dist_err}


def hash_routes(out, rng):
    """equal frozen messages hash equal and find each other as dictionary keys however they were built: constructor (attributes in any
    keyword order), copy with overrides, from_bytes / Parser, from_str, from_dict, thaw+freeze."""
    import mido
    from mido.frozen import freeze_message, thaw_message
    n = 0
    for m in _sample_messages(rng, 2 if out.tier == 'quick' else 40):
        routes = [('copy', lambda: m.copy()), ('thaw-freeze', lambda: thaw_message(freeze_message(m)))]
        if type(m) is mido.Message:
            routes += [('from_bytes', lambda: mido.Message.from_bytes(m.bytes(), time=m.time)),
                       ('parser', lambda: [x.copy(time=m.time) for x in mido.Parser(m.bytes())][0]),
                       ('from_str', lambda: mido.Message.from_str(str(m))),
                       ('from_dict', lambda: mido.Message.from_dict(m.dict())),
                       ('reversed-kwargs', lambda: mido.Message(m.type, **dict(reversed([(k, v) for k, v in vars(m).items() if k != 'type'])))),
                       ('copy-override', lambda: m.copy(**{k: v for k, v in list(vars(m).items())[-1:] if k != 'type'}))]
        elif type(m) is mido.MetaMessage:
            routes += [('from_bytes', lambda: mido.MetaMessage.from_bytes(m.bytes()).copy(time=m.time)),
                       ('reversed-kwargs', lambda: mido.MetaMessage(m.type, **dict(reversed([(k, v) for k, v in vars(m).items() if k != 'type'])))),
                       ('copy-override', lambda: m.copy(time=m.time))]
        # equal messages whose values are equal numbers of different types (1 == 1.0 == True): still equal, so still one dictionary key
        def numeric_twin(kind):
            kw = {k: v for k, v in vars(m).items() if k != 'type'}
            if kind == 'float-time' and isinstance(kw.get('time'), int) and not isinstance(kw.get('time'), bool):
                kw['time'] = float(kw['time'])
            elif kind == 'int-time' and isinstance(kw.get('time'), float) and kw['time'].is_integer():
                kw['time'] = int(kw['time'])
            elif kind == 'bool-values':
                for k, v in kw.items():
                    if type(v) is int and v in (0, 1) and k != 'time':
                        kw[k] = bool(v)
            return type(m)(m.type, **kw) if type(m) in (mido.Message, mido.MetaMessage) else m.copy(time=kw['time'])
        routes += [('float-time', lambda: numeric_twin('float-time')), ('int-time', lambda: numeric_twin('int-time')), ('bool-values', lambda: numeric_twin('bool-values'))]
        f = freeze_message(m)
        # hashing (using it as a key) must leave the message as it is: same attributes, still equal to an unhashed twin, same thawed message
        n += 1
        try:
            twin0 = freeze_message(m)
            before = dict(vars(twin0))
            hash(twin0); {twin0: 1}; {twin0}
            if dict(vars(twin0)) != before or not (twin0 == freeze_message(m)) or not (thaw_message(twin0) == m) or vars(thaw_message(twin0)).keys() != vars(m).keys():
                out.failures.append(('hash-changes-message', 'after hash() the frozen form of %r has attributes %r (before: %r)' % (m, sorted(vars(twin0)), sorted(before)),
                                     {'component': 'hash-routes', 'message': repr(m)}))
            elif type(m) is mido.Message:
                back = mido.Message.from_dict(twin0.dict())
                if not (back == m):
                    out.failures.append(('hash-changes-message', 'after hash(), from_dict(frozen.dict()) of %r gives %r' % (m, back), {'component': 'hash-routes', 'message': repr(m)}))
        except Exception as e:  # noqa: BLE001
            out.failures.append(('hash-raises', 'hashing the frozen form of %r and using it afterwards raised %r' % (m, e), {'component': 'hash-routes', 'message': repr(m)}))
        for tag, mk in routes:
            n += 1
            try:
                twin = mk()
                if not (twin == m):
                    continue      # (e.g. float time through str: other properties)
                g = freeze_message(twin)
                if hash(g) != hash(f) or {f: 1}.get(g) != 1 or g not in {f}:
                    out.failures.append(('hash', 'equal frozen messages hash differently: %r built directly and via %s' % (m, tag),
                                         {'component': 'hash-routes', 'message': repr(m), 'route': tag}))
            except Exception as e:  # noqa: BLE001
                out.failures.append(('hash-raises', 'route %s for %r raised %r' % (tag, m, e), {'component': 'hash-routes', 'message': repr(m), 'route': tag}))
    out.evaluations += n
    out.components['hash-routes (equal messages built by different routes, implementation against the property statement)'] = {'cases': n}


def run(out):
    rng = random.Random(out.seed)
    n = 2000 if out.tier == 'quick' else 200000
    cases = [[3, -1], [2, -1], [0, 0, 0, 4, 0, 1, 1, 60, 2, 64, 11, 0, 2, 0, 2, 1, 3, 1, 4, 0, 1, 61, 4, 1, 1, 62]]
    cases += [random_history(rng) for _ in range(n)]
    for tag, rec in core.pmap(job, chunk_jobs(cases, 'heap', COMP_HEAP)):
        core.merge_into(out, rec, tag)
    # values that the integer model does not carry: sysex data, text, sequencer_specific data
    import mido
    from mido.frozen import freeze_message, thaw_message
    extra = [mido.Message('sysex', data=[1, 2, 3]), mido.MetaMessage('text', text='abc'), mido.MetaMessage('sequencer_specific', data=[1, 2]),
             mido.MetaMessage('sequencer_specific'), mido.MetaMessage('key_signature', key='F#m'), mido.UnknownMetaMessage(0x60, data=[1, 2, 3], time=5),
             mido.MetaMessage('smpte_offset', frame_rate=29.97, hours=1)]
    for m in extra:
        out.evaluations += 1
        try:
            f = freeze_message(m)
            c = m.copy()
            ok = (f == m) and thaw_message(f) == m and type(thaw_message(f)) is type(m) and hash(f) == hash(freeze_message(m.copy())) \
                and {f: 1}.get(freeze_message(c)) == 1 and (c == m) and c is not m
            if not ok:
                out.failures.append(('value-semantics', 'copy/freeze/thaw/hash of %r do not agree' % (m,), {'component': 'extra', 'message': repr(m)}))
        except Exception as e:  # noqa: BLE001
            out.failures.append(('hash-raises' if 'hash' in repr(e) or isinstance(e, TypeError) else 'raises', 'copy/freeze/thaw/hash of %r raised %r' % (m, e), {'component': 'extra', 'message': repr(m)}))
    copy_vs_constructor(out, rng)
    hash_routes(out, rng)
    a, b = mido.MetaMessage('sequencer_specific'), mido.MetaMessage('sequencer_specific')
    if vars(a)['data'] is vars(b)['data'] and isinstance(vars(a)['data'], list):
        out.failures.append(('shared-default', 'two sequencer_specific messages share one mutable default data list', {'component': 'extra'}))
    out.components['extra (non-integer attribute values, implementation only)'] = {'cases': len(extra) + 1}
    out.rule = ('%d histories of 3-13 operations over a heap of Message / MetaMessage / UnknownMetaMessage objects: construct, copy with 0-3 valid overrides, '
                'freeze_message, thaw_message (also of None and of already frozen / unfrozen objects), attribute assignment and deletion on plain and frozen objects; '
                'after every operation the class, frozen flag and attributes of EVERY object and the identity of the returned object are compared with the model; '
                'oracle: equality, class, independence, hashing and dictionary lookup of equal frozen messages. Non-trivial: every history; distinct by content.' % len(cases))
    out.sample({'component': 'heap', 'case': cases[2]})
    out.sample({'component': 'heap', 'case': cases[30][:50]})
    core.kernel_crosscheck(out, [(COMP_HEAP, c) for c in rng.sample(cases, 120)], 'C15')
    out.assumptions += ['the heap model carries integer attributes; sysex data, text, key and frame_rate values are exercised on the implementation only',
                        'invalid override / assignment values are C03; here values are in range',
                        'equal tuples hash equal (CPython)']
