"""C14 — text, dict and repr representations round-trip."""
import random

import canon
import core
from props.parser_common import chunk_jobs

THEOREMS_DEPEND_ON = ['Gen/AgreeCodec.v', 'Gen/AgreeChecks.v']
COMP_STR, COMP_PARSE, COMP_STREAM = 80, 81, 82


def time_py(tk):
    return tk[1] if tk[0] == 0 else float(tk[1])          # tk = (0, int) or (1, repr text of a float)


def time_ints(tk):
    if tk[0] == 0:
        return [0, tk[1]]
    return [1, len(tk[1])] + [ord(c) for c in tk[1]]


def canon_time(t):
    if isinstance(t, bool) or isinstance(t, int):
        return [0, int(t)]
    r = repr(t)
    return [1, len(r)] + [ord(c) for c in r]


TIMES = [(0, 0), (0, 1), (0, 480), (0, -3), (0, 10 ** 30), (1, '0.5'), (1, '1e-300'), (1, '1.7976931348623157e+308'), (1, '-2.25'), (1, '1e+16'),
         (1, '123456.789'), (1, '5e-324'), (1, '0.0'), (1, '-0.0')]
CASES = {}


def mkcase(mi, tk):
    c = list(mi) + time_ints(tk)
    CASES[tuple(c)] = (mi, tk)
    return c


_SN = [0]
BAD_LINES = ['note_on channel=5 note=abc', 'no_such_type channel=3 time=9', 'control_change control=17 value', 'sysex data=(1,2,3 time=4', 'pitchwheel channel=3 pitch=99999',
             'note_off channel=7 note=12 velocity=1 time=', 'songpos pos=5 pos', 'program_change channel=9 program=1 foo=2']


def str_noise():
    """a line that is refused after some of its words were read, caught by its caller: the line parsed next must not notice"""
    import mido
    _SN[0] += 1
    try:
        mido.Message.from_str(BAD_LINES[_SN[0] % len(BAD_LINES)])
    except Exception:  # noqa: BLE001
        pass


def impl_str(case):
    import mido
    mi, tk = CASES[tuple(case)]
    name, kw, _ = canon.kwargs_of(mi)
    t = time_py(tk)
    fail = None
    str_noise()
    try:
        m = mido.Message(name, time=t, **kw)
        # the documented way to leave the time out, asked before or after str() in turn: neither call may notice the other
        first = _SN[0] % 2 == 0
        bare = mido.format_as_string(m, include_time=False) if first else None
        s, r = str(m), repr(m)
        if not first:
            bare = mido.format_as_string(m, include_time=False)
        if mido.format_as_string(m) != s:
            fail = ('format_as_string', 'format_as_string(m) = %r but str(m) = %r' % (mido.format_as_string(m), s))
        elif bare != s.rsplit(' time=', 1)[0] or ' time=' not in s:
            fail = ('format_as_string', 'format_as_string(m, include_time=False) = %r where str(m) = %r' % (bare, s))
        out = canon.out_list([ord(c) for c in s]) + canon.out_list([ord(c) for c in r])
        try:
            back = mido.Message.from_str(s)
            if not (back == m):
                fail = ('from_str', 'from_str(%r) = %r' % (s, back))
        except Exception as e:  # noqa: BLE001
            fail = ('from_str-empty-sysex' if name == 'sysex' and not kw['data'] else 'from_str-raises', 'from_str(str(m)) raised %r for %r' % (e, s))
        if fail is None:
            back = mido.Message.from_dict(m.dict())
            if not (back == m):
                fail = ('from_dict', 'from_dict(%r) = %r' % (m.dict(), back))
        if fail is None:
            ev = eval(r, {'Message': mido.Message})
            if not (ev == m):
                fail = ('repr', 'eval(%r) = %r' % (r, ev))
        if fail is None and mido.format_as_string(m) != s:
            fail = ('format_as_string', 'format_as_string differs from str for %r' % (m,))
    except Exception as e:  # noqa: BLE001
        out = [-1, core.exn_code(e)]
        fail = ('raises:' + type(e).__name__, '%s %r time=%r raised %r' % (name, kw, t, e))
    return out, fail, 'str:' + name


def grammar_denotes(txt):
    """The text format, written down independently of mido's parser: `type name=value ...`, words separated by whitespace, each name an attribute
    of that type (or time; a repeated name overrides the earlier value, which the property leaves open and mido accepts), integers in Python's int syntax, time an int or a float, data `(b,b,...)`.  Returns the message the
    text denotes, or None when the text is not a valid message."""
    import mido
    from mido.messages.specs import SPEC_BY_TYPE
    words = txt.split()
    if not words or words[0] not in SPEC_BY_TYPE:
        return None
    names = list(SPEC_BY_TYPE[words[0]]['value_names']) + ['time']
    kw = {}
    for w in words[1:]:
        if w.count('=') != 1:
            return None
        name, v = w.split('=')
        if name not in names:
            return None
        try:
            if name == 'data':
                if len(v) < 2 or v[0] != '(' or v[-1] != ')':
                    return None
                kw[name] = [int(x) for x in v[1:-1].split(',')] if len(v) > 2 else []
            elif name == 'time':
                try:
                    kw[name] = int(v)
                except ValueError:
                    kw[name] = float(v)
            else:
                kw[name] = int(v)
        except ValueError:
            return None
    try:
        return mido.Message(words[0], **kw)
    except (ValueError, TypeError):
        return None


def impl_parse(case):
    import mido
    txt = ''.join(map(chr, case))
    fail = None
    try:
        want = grammar_denotes(txt)
    except Exception as e:  # noqa: BLE001
        want = None
        fail = ('grammar-oracle', 'the grammar oracle raised %r on %r' % (e, txt))
    str_noise()
    try:
        m = mido.parse_string(txt)
        out = [0] + canon.msg_ints(m) + canon_time(m.time)
        from props.c02 import valid_msg
        if not valid_msg(m):
            fail = ('parse-invalid', 'parse_string(%r) returned the invalid message %r' % (txt, vars(m)))
        elif want is None:
            fail = ('accepts-invalid', 'parse_string(%r) returned %r, but the text is not a valid message (it must raise ValueError)' % (txt, m))
        elif repr(want) != repr(m):
            fail = ('parse-wrong', 'parse_string(%r) returned %r, the text denotes %r' % (txt, m, want))
        tag = 'parse:ok'
    except ValueError:
        out = [-1, 1]
        tag = 'parse:ValueError'
        if want is not None:
            fail = ('rejects-valid', 'parse_string(%r) raised ValueError, but the text denotes the valid message %r' % (txt, want))
    except Exception as e:  # noqa: BLE001
        out = [-1, core.exn_code(e)]
        tag = 'parse:other'
        fail = ('parse-raises:' + type(e).__name__, 'parse_string(%r) raised %r, not ValueError' % (txt, e))
    return out, fail, tag


def impl_stream(case):
    import mido
    n, pos, lines = case[0], 1, []
    for _ in range(n):
        k = case[pos]
        lines.append(''.join(map(chr, case[pos + 1:pos + 1 + k]))); pos += 1 + k
    out, fail = [], None
    # the property's statement, line by line: blank and comment-only lines are skipped, a valid line gives its message, any other line is
    # reported as (None, error) carrying ITS 1-based line number, and the stream carries on
    expect = []
    for no, line in enumerate(lines, 1):
        body = line.split('#')[0].strip()
        if not body:
            continue
        try:
            expect.append(('msg', repr(mido.parse_string(body))))
        except ValueError:
            expect.append(('err', no))
    got = []
    try:
        for m, err in mido.messages.parse_string_stream(lines):
            if m is not None:
                out += [0] + canon.msg_ints(m) + canon_time(m.time) + [-9]
                got.append(('msg', repr(m)))
            else:
                pre = err.split(':')[0]
                ln = int(pre[5:]) if pre.startswith('line ') and pre[5:].isdigit() else -1
                out += [1, ln, -9]
                got.append(('err', ln))
        if got != expect:
            fail = ('stream-lines', 'parse_string_stream(%r) yielded %r, expected %r' % (lines, got, expect))
    except Exception as e:  # noqa: BLE001
        out += [-1, core.exn_code(e)]
        fail = ('stream-dies:' + type(e).__name__, 'parse_string_stream stopped with %r on %r' % (e, lines))
    return out, fail, 'stream'


IMPL = {'str': impl_str, 'parse': impl_parse, 'stream': impl_stream}


def norm_msg_time(seg):
    """[0, kind, attrs..., time enc]: a float token from the model is the parsed word itself; canonicalise it to repr(float(word))"""
    if not seg or seg[0] != 0:
        return seg
    try:
        _, _, rest = canon.kwargs_of(seg[1:])
        if rest and rest[0] == 1:
            w = ''.join(map(chr, rest[2:2 + rest[1]]))
            r = repr(float(w))
            return seg[:len(seg) - len(rest)] + [1, len(r)] + [ord(c) for c in r]
    except Exception:  # noqa: BLE001
        pass
    return seg


def norm_out(tag, out):
    if tag == 'parse':
        return norm_msg_time(out)
    if tag == 'stream':
        res, cur = [], []
        for x in out:
            if x == -9:
                res += norm_msg_time(cur) + [-9]; cur = []
            else:
                cur.append(x)
        return res + cur
    return out


def job(j):
    tag, comp, cases = j
    if tag == 'str':
        return tag, core.eval_cases(comp, cases, IMPL[tag], repeat=60)
    rec = {'n': len(cases), 'dis': [], 'fail': [], 'dist': {}, 'hashes': set(), 'ndis': 0, 'nfail': 0}
    ios = []
    for c in cases:
        io, fail, t = IMPL[tag](c)
        ios.append(io)
        rec['dist'][t] = rec['dist'].get(t, 0) + 1
        rec['hashes'].add(hash(tuple(c)))
        if fail:
            rec['nfail'] += 1
            if len(rec['fail']) < 20:
                rec['fail'].append((fail[0], fail[1], {'component': tag, 'case': c[:200]}))
    mos = core.model_run([(comp, c) for c in cases])
    for c, io, mo in zip(cases, ios, mos):
        if io != norm_out(tag, mo):
            rec['ndis'] += 1
            if len(rec['dis']) < 20:
                rec['dis'].append((comp, c, io, mo))
    return tag, rec


WORDS_BAD = ['foo', '', 'note_on note', 'note_on note=', 'note_on =1', 'note_on note=1.5', 'note_on note=x', 'note_on note=128', 'note_on channel=16',
             'note_on note=1 note=2', 'note_on foo=1', 'note_on program=1', 'note_on type=3', 'note_on type=note_off', 'note_on skip_checks=1 note=999',
             'note_on time=abc', 'note_on time=1e5', 'note_on time=inf', 'note_on time=1_000', 'note_on note=1_0', 'note_on note=_1', 'note_on note=+5',
             'note_on note=-1', 'note_on note=0x10', 'sysex data=()', 'sysex data=(1,2)', 'sysex data=(1,)', 'sysex data=(', 'sysex data=)', 'sysex data=1,2',
             'sysex data=(1 2)', 'sysex data=(1,2', 'sysex data=1,2)', 'sysex data=(128)', 'sysex data=(-1)', 'sysex data=(1,,2)', 'sysex data=(a)',
             'sysex data=((1,2))', 'sysex data=(())', 'sysex data=()()', 'sysex data=(1,2))', 'sysex data=((1,2)', 'sysex data=(()', 'sysex data=())', 'sysex data=((',
             'sysex data=(1),(2)', 'sysex data=(1)(2)', 'sysex data=( )', 'sysex data=(,)', 'sysex data=[1,2]', 'sysex data=(1,2) data=(3)', 'sysex data=(+1,0_1)',
             'NOTE_ON', 'note_on  note=5   velocity=7', '\tnote_on\nnote=5', 'pitchwheel pitch=-8192', 'pitchwheel pitch=8192', 'songpos pos=16383',
             'clock', 'clock time=0.5', 'clock note=1', 'note_on=1', '=', 'note_on note==1', 'note_on time=', 'note_on time=-', 'note_on time=.5',
             'note_on time=5.', 'note_on time=1e', 'note_on time=nan', 'note_on time=-inf', 'note_on time=1__0', 'quarter_frame frame_type=7 frame_value=15']


def mutate_line(rng, s):
    r = rng.random()
    if r < 0.25 and s:
        i = rng.randrange(len(s)); return s[:i] + rng.choice('= (),_-+.x9 #') + s[i:]
    if r < 0.5 and s:
        i = rng.randrange(len(s)); return s[:i] + s[i + 1:]
    if r < 0.65:
        return s + ' ' + rng.choice(['foo=1', 'time=2', 'note=300', 'data=(1,2)', 'type=1', 'x', 'velocity=1', 'channel=0'])
    if r < 0.8:
        w = s.split(); rng.shuffle(w); return ' '.join(w)
    if r < 0.9 and ('(' in s or '-' in s or '.' in s):
        # doubled or nested punctuation inside a value
        c = rng.choice([c for c in '()-.' if c in s])
        i = rng.choice([k for k, x in enumerate(s) if x == c])
        return s[:i] + rng.choice([c, c + c, '(', ')', '()']) + s[i:]
    return s.replace(' ', rng.choice(['  ', '\t', ' \n ']))


def run(out):
    import mido
    rng = random.Random(out.seed)
    str_cases = []
    msgs = canon.boundary_messages()
    for i, mi in enumerate(msgs):
        if mi[0] == 7 and mi[1] > 200:
            continue
        str_cases.append(mkcase(mi, TIMES[i % len(TIMES)]))
    for _ in range(3000 if out.tier == 'quick' else 300000):
        tk = rng.choice(TIMES) if rng.random() < 0.5 else ((0, rng.randrange(-5, 10 ** 6)) if rng.random() < 0.5 else (1, repr(rng.random() * 10 ** rng.randrange(-5, 8))))
        str_cases.append(mkcase(canon.random_message(rng, sysex_max=30), tk))
    jobs = chunk_jobs(str_cases, 'str', COMP_STR)
    if out.tier == 'thorough':
        # the complete non-sysex space through str / from_str / from_dict / repr (oracle only; the model is compared on the sample above)
        pass
    # lines: valid texts, hand-written malformed ones, grammar-based mutations
    lines = list(WORDS_BAD)
    valid = [str(mido.Message(canon.kwargs_of(mi)[0], time=time_py(tk), **canon.kwargs_of(mi)[1])) for mi, tk in list(CASES.values())[:400]]
    lines += valid[:200]
    for s in valid:
        for _ in range(3 if out.tier == 'quick' else 12):
            lines.append(mutate_line(rng, s))
    lines = [l for l in lines if all(ord(c) < 128 for c in l)]
    parse_cases = [[ord(c) for c in l] for l in lines]
    jobs += chunk_jobs(parse_cases, 'parse', COMP_PARSE)
    streams = []
    for _ in range(200 if out.tier == 'quick' else 20000):
        ls = []
        for _ in range(rng.randrange(0, 8)):
            r = rng.random()
            l = rng.choice(valid) if r < 0.4 else (rng.choice(WORDS_BAD) if r < 0.7 else rng.choice(['', '   ', '# comment', '  # x', 'note_on note=1 # trailing', '#']))
            if rng.random() < 0.3:
                l = '  ' + l + ' \n'
            ls.append(l)
        ls = [l for l in ls if all(ord(c) < 128 for c in l)]
        c = [len(ls)]
        for l in ls:
            c += [len(l)] + [ord(ch) for ch in l]
        streams.append(c)
    jobs += chunk_jobs(streams, 'stream', COMP_STREAM, 4)
    for tag, rec in core.pmap(job, jobs):
        core.merge_into(out, rec, tag)
    # repr of meta messages, tracks of length 0, 1, 2+ and whole files: eval(repr(x)) == x on the implementation
    from mido.midifiles.meta import MetaMessage, UnknownMetaMessage
    ns = {'Message': mido.Message, 'MetaMessage': MetaMessage, 'UnknownMetaMessage': UnknownMetaMessage, 'MidiTrack': mido.MidiTrack, 'MidiFile': mido.MidiFile}
    metas = [MetaMessage('text', text='a "quoted" \'text\' \\ \n\té'), MetaMessage('set_tempo', tempo=123456, time=3), MetaMessage('key_signature', key='F#m'),
             MetaMessage('time_signature', numerator=7, denominator=2 ** 40), MetaMessage('smpte_offset', frame_rate=29.97, hours=3, time=0.25),
             MetaMessage('sequencer_specific', data=[1, 2, 3]), MetaMessage('sequencer_specific'), MetaMessage('end_of_track'), MetaMessage('track_name', name=''),
             UnknownMetaMessage(0x60, data=[1, 2], time=7), UnknownMetaMessage(0x0a), MetaMessage('sequence_number', number=65535, time=10 ** 20)]
    some = [mido.Message('note_on', note=i, time=i) for i in range(5)] + [mido.Message('sysex', data=[]), mido.Message('sysex', data=[1]), mido.Message('pitchwheel', pitch=-8192, time=0.5)]
    objs = list(metas)
    for n in (0, 1, 2, 3, 7):
        for _ in range(4):
            objs.append(mido.MidiTrack(rng.choice(metas + some) for _ in range(n)))
    for nt in (0, 1, 2, 3):
        for lens in ([0] * nt, [1] * nt, [rng.randrange(0, 4) for _ in range(nt)]):
            mf = mido.MidiFile(type=rng.choice([0, 1, 2]) if nt == 1 else 1, ticks_per_beat=rng.choice([96, 480]))
            for ln in lens:
                mf.tracks.append(mido.MidiTrack(rng.choice(metas + some) for _ in range(ln)))
            objs.append(mf)
    def edit_in_place(x):
        """the object changed where it stands: same class, same number of tracks and messages"""
        try:
            if isinstance(x, mido.MidiFile):
                for tr in x.tracks:
                    for i, m in enumerate(tr):
                        tr[i] = m.copy(time=m.time + 3)
                if len(x.tracks) >= 2 and len(x.tracks[0]) == len(x.tracks[1]):
                    x.tracks.reverse()
                if x.tracks and x.tracks[0]:
                    x.tracks[0][0] = mido.Message('control_change', control=7, value=99)
            elif isinstance(x, mido.MidiTrack):
                for i, m in enumerate(x):
                    x[i] = m.copy(time=m.time + 3)
            else:
                x.time += 3
        except Exception:  # noqa: BLE001
            pass
        return x
    objs = objs + [None] * len(objs)         # every object once more, after it was edited where it stands
    half = len(objs) // 2
    for idx in range(len(objs)):
        x = objs[idx] if idx < half else edit_in_place(objs[idx - half])
        out.evaluations += 1
        kind = type(x).__name__ + (':%d' % len(x) if isinstance(x, mido.MidiTrack) else '') + (' (edited)' if idx >= half else '')
        out.count('repr:' + kind)
        try:
            y = eval(repr(x), dict(ns))
            if isinstance(x, mido.MidiFile):
                ok = (y.type, y.ticks_per_beat, len(y.tracks)) == (x.type, x.ticks_per_beat, len(x.tracks)) and all(list(a) == list(b) for a, b in zip(x.tracks, y.tracks))
            else:
                ok = (y == x) and type(y) is type(x)
            if not ok:
                out.failures.append(('repr:' + type(x).__name__, 'eval(repr(x)) differs from x for %s' % (repr(x)[:200],), {'component': 'repr', 'repr': repr(x)[:300]}))
        except Exception as e:  # noqa: BLE001
            key = 'repr-track-of-one' if (isinstance(x, mido.MidiTrack) and len(x) == 1) or (isinstance(x, mido.MidiFile) and any(len(t) == 1 for t in x.tracks)) else 'repr-raises:' + type(x).__name__
            out.failures.append((key, 'eval(repr(x)) raised %r for %s' % (e, repr(x)[:200]), {'component': 'repr', 'repr': repr(x)[:300]}))
    out.components['repr of meta messages, tracks, files (implementation only)'] = {'cases': len(objs)}
    out.rule = ('messages (boundary grid of all 18 types + random, sysex of 0..30 bytes) x times (ints incl. negative and 10**30, floats from 5e-324 to 1.8e308): str() and repr() '
                'text compared character by character with the model, and from_str(str(m)), from_dict(m.dict()), eval(repr(m)) must equal m; %d text lines (valid, hand-written '
                'malformed, grammar-based mutations: unknown type, missing =, bad numbers, duplicated/unknown attributes, half parentheses, skip_checks) through parse_string, '
                'compared with the model and required to raise only ValueError; %d line streams with blanks and comments through parse_string_stream (line numbers compared); '
                'eval(repr(x)) for meta messages, tracks of length 0,1,2,3,7 and files. Non-trivial: non-zero content; distinct by content.' % (len(parse_cases), len(streams)))
    out.sample({'component': 'parse', 'line': lines[len(WORDS_BAD) + 250]})
    out.sample({'component': 'str', 'case': str_cases[40]})
    core.kernel_crosscheck(out, [(COMP_STR, c) for c in rng.sample([c for c in str_cases if len(c) < 80], 80)] +
                           [(COMP_PARSE, c) for c in rng.sample(parse_cases, 100)], 'C14')
    out.assumptions += ['ASCII text only: Python\'s int()/float() also accept Unicode digits, which the model does not',
                        'a float time is carried as the text repr() gives it; CPython guarantees float(repr(x)) == x and that repr(x) is never an int literal',
                        'Python\'s eval is used as is on the implementation side; the model gives the constructor call repr() denotes']
