"""C03 — no invalid message state is reachable through the checked API."""
import copy as copymod
import random

import canon
import core
from props.c02 import valid_msg

COMP_CTOR, COMP_HIST = 20, 21
THEOREMS_DEPEND_ON = ['Gen/AgreeCodec.v', 'Gen/AgreeChecks.v']
ATTRS = ['channel', 'note', 'velocity', 'value', 'control', 'program', 'pitch', 'data', 'frame_type', 'frame_value', 'pos',
         'song', 'time', 'type']
ATTR_ID = {a: i for i, a in enumerate(ATTRS)}


class Opaque:
    """stands for AOther: not a number, not iterable, hashable"""
    def __repr__(self):
        return 'Opaque()'


# ---- pyval encoding <-> Python values ------------------------------------------------------------
def enc_atom(a):
    k = a[0]
    if k == 'int':
        return [0, a[1]]
    if k == 'bool':
        return [1, 1 if a[1] else 0]
    if k == 'float':
        return [2, a[1]]
    if k == 'str':
        return [3, len(a[1])] + [ord(c) for c in a[1]]
    if k == 'none':
        return [4]
    return [5]


def py_atom(a):
    k = a[0]
    if k == 'int':
        return a[1]
    if k == 'bool':
        return bool(a[1])
    if k == 'float':
        # even token: an integral-valued float (60.0 == 60 but is not an Integral); odd token: tok + 0.5
        return float(a[1]) if a[1] % 2 == 0 else a[1] + 0.5
    if k == 'str':
        return a[1]
    if k == 'none':
        return None
    return Opaque()


def enc_val(v):
    if v[0] == 'seq':
        out = [1, len(v[1])]
        for a in v[1]:
            out += enc_atom(a)
        return out
    if v[0] == 'bytes':
        return [2, len(v[1])] + list(v[1])
    return [0] + enc_atom(v)


def py_val(v, salt=0, allow_gen=True):
    if v[0] == 'seq':
        items = [py_atom(a) for a in v[1]]
        # the same items as a list, a tuple, the library's own tuple subclass (what msg.data itself is), or a generator
        form = (salt + len(items)) % (4 if allow_gen else 3)
        if form == 2:
            from mido.messages.messages import SysexData
            return SysexData(items)
        return items if form == 0 else (tuple(items) if form == 1 else (x for x in items))
    if v[0] == 'bytes':
        return bytes(v[1]) if salt % 2 else bytearray(v[1])
    return py_atom(v)


SPECIAL_NAMES = {100: '__dict__', 101: '__class__', 102: '__doc__', 103: '__slots__', 104: '__weakref__'}


def attr_name(i):
    # indices beyond the attribute table are names no message has: made-up ones and the special names every Python object answers to
    return ATTRS[i] if i < len(ATTRS) else SPECIAL_NAMES.get(i, 'zzz%d' % i)


def enc_kw(kw):
    out = [len(kw)]
    for a, v in kw:
        out += [a] + enc_val(v)
    return out


def py_kw(kw, salt=0):
    return {attr_name(a): py_val(v, salt + i) for i, (a, v) in enumerate(kw)}


def in_domain(name, v):
    """the documented domain, the harness's own table"""
    if name == 'time':
        return v[0] in ('int', 'bool', 'float')
    if name == 'data':
        if v[0] == 'seq':
            return all(a[0] in ('int', 'bool') and 0 <= int(a[1]) <= 127 for a in v[1])
        if v[0] == 'bytes':
            return all(0 <= b <= 127 for b in v[1])
        return v[0] == 'str' and v[1] == ''
    if name not in canon.RANGES:
        return False
    lo, hi = canon.RANGES[name]
    return v[0] in ('int', 'bool') and lo <= int(v[1]) <= hi


def canon_time(t):
    if isinstance(t, bool) or isinstance(t, int):
        return [0, int(t)]
    if isinstance(t, float) and t == t and abs(t) < 2 ** 52:
        if t == int(t) and int(t) % 2 == 0:
            return [2, int(t)]
        if (t - 0.5) == int(t - 0.5) and int(t - 0.5) % 2 != 0:
            return [2, int(t - 0.5)]
    return [9]


def canon_obj(m):
    return canon.msg_ints(m) + canon_time(vars(m).get('time'))


def canon_exn(e):
    if isinstance(e, (ValueError, TypeError, AttributeError)) and not isinstance(e, (LookupError,)):
        return [-1, 1]
    return [-1, core.exn_code(e)]


VALUES_INT = lambda lo, hi: [('int', lo - 1), ('int', lo), ('int', lo + 1), ('int', (lo + hi) // 2), ('int', hi - 1), ('int', hi),
                             ('int', hi + 1), ('int', 2 ** 63), ('int', -2 ** 63), ('int', 128), ('int', 256)]
VALUES_ODD = [('float', 1), ('float', 0), ('float', 64), ('float', 126), ('float', 14), ('float', 2), ('str', '1'), ('str', ''), ('str', 'ab'), ('none',), ('other',), ('bool', True), ('bool', False),
              ('seq', []), ('seq', [('int', 1)]), ('seq', [('int', 1), ('int', 2)]), ('bytes', [1, 2]), ('bytes', [200])]
VALUES_DATA = [('seq', [('float', 2)]), ('seq', [('int', 5), ('float', 64), ('int', 7)]), ('seq', [('float', 0)]), ('seq', [('float', 126), ('int', 0)]),
               ('seq', [('int', 0), ('int', 127), ('float', 4)]), ('seq', []), ('seq', [('int', 0), ('int', 127)]), ('seq', [('int', 128)]), ('seq', [('int', -1)]), ('seq', [('int', 1), ('float', 1)]),
               ('seq', [('bool', True), ('int', 5)]), ('seq', [('str', '1')]), ('seq', [('none',)]), ('seq', [('other',)]),
               ('seq', [('int', 5), ('int', 300)]), ('seq', [('float', 2), ('int', 300)]), ('seq', [('int', 300), ('float', 2)]),
               ('bytes', []), ('bytes', [0, 127]), ('bytes', [128]), ('bytes', [1, 2, 255]), ('int', 5), ('int', 0), ('int', -1), ('bool', True),
               ('float', 1), ('none',), ('other',), ('str', ''), ('str', 'ab'), ('int', 2 ** 40), ('seq', [('int', i % 128) for i in range(300)])]
VALUES_TIME = [('int', 0), ('int', -5), ('int', 2 ** 70), ('float', 3), ('float', -2), ('bool', True), ('str', '1'), ('none',), ('other',),
               ('seq', []), ('bytes', [1])]


def values_for(name):
    if name == 'data':
        return VALUES_DATA
    if name == 'time':
        return VALUES_TIME
    if name in canon.RANGES:
        return VALUES_INT(*canon.RANGES[name]) + VALUES_ODD
    return [('int', 0), ('int', 1), ('str', 'x'), ('none',)]


def impl_ctor(case):
    """case = [kind, kw...] + [entry] : entry 0 = Message(type, **kw), 1 = from_dict, 2 = from_str (ints only)."""
    import mido
    entry, case = case[-1], case[:-1]
    kw = CASE_KW[tuple(case)]
    name = canon.KINDS[case[0]][0]
    pkw = py_kw(kw, salt=len(case))
    fail = None
    try:
        if entry == 0:
            m = mido.Message(name, **pkw)
        elif entry == 1:
            d = dict(pkw); d['type'] = name
            m = mido.Message.from_dict(d)
        else:
            words = [name]
            for a, v in kw:
                n = attr_name(a)
                if n == 'data':
                    words.append('data=(%s)' % ','.join(str(int(x[1])) for x in v[1]))
                else:
                    words.append('%s=%d' % (n, int(v[1])))
            m = mido.Message.from_str(' '.join(words))
        out = [0] + canon_obj(m)
        ok = valid_msg(m) and m.type == name and canon_time(m.time) != [9]
        expect_ok = all(attr_name(a) in canon.KINDS[case[0]][1] + ('time',) and in_domain(attr_name(a), v) for a, v in kw)
        if not ok:
            fail = ('invalid-state', '%s(%r) entry %d produced invalid %r' % (name, pkw, entry, vars(m)))
        elif not expect_ok:
            fail = ('accepted-bad-value', '%s(%r) entry %d accepted a value outside the documented domain: %r' % (name, kw, entry, m))
        else:
            for a, v in kw:
                n = attr_name(a)
                have = vars(m)[n]
                want = py_val(v, 0)
                if n == 'data':
                    want = tuple(int(x[1]) for x in v[1]) if v[0] == 'seq' else (tuple(v[1]) if v[0] == 'bytes' else ())
                    have = tuple(have)
                if not (have == want):
                    fail = ('wrong-value', '%s(%r): attribute %s is %r' % (name, kw, n, have))
    except Exception as e:  # noqa: BLE001
        out = canon_exn(e)
        expect_ok = all(attr_name(a) in canon.KINDS[case[0]][1] + ('time',) and in_domain(attr_name(a), v) for a, v in kw)
        if out != [-1, 1]:
            fail = ('wrong-exception:' + type(e).__name__, '%s(%r) entry %d raised %r' % (name, kw, entry, e))
        elif expect_ok:
            fail = ('rejected-good-value', '%s(%r) entry %d rejected documented values: %r' % (name, kw, entry, e))
    return out, fail, 'ctor:%s' % ('ok' if out[0] == 0 else 'rejected')


CASE_KW = {}      # encoded case -> structured kw (filled by the generator in the parent before forking)
CASE_HIST = {}


def mk_ctor(kind, kw):
    c = [kind] + enc_kw(kw)
    CASE_KW[tuple(c)] = kw
    return c


def state_of(m):
    d = dict(vars(m))
    if 'data' in d:
        d['data'] = tuple(d['data'])
    return d


def impl_hist(case):
    import mido
    kind, kw, ops = CASE_HIST[tuple(case)]
    name = canon.KINDS[kind][0]
    fail = None
    out = []
    try:
        m = mido.Message(name, **py_kw(kw, 1))
    except Exception as e:  # noqa: BLE001
        return canon_exn(e), None, 'hist:ctor-rejected'
    out = [0] + canon_obj(m) + [-9]
    keys = set(vars(m))
    for i, op in enumerate(ops):
        before = state_of(m)
        res = None
        try:
            if op[0] == 'set':
                setattr(m, attr_name(op[1]), py_val(op[2], i, allow_gen=False))
                out += [0]
            elif op[0] == 'del':
                delattr(m, attr_name(op[1]))
                out += [0]
            elif op[0] == 'copy':
                res = m.copy(**py_kw(op[1], i))
                out += [1] + canon_obj(res)
            elif op[0] == 'iadd':
                m.data += py_val(op[1], i, allow_gen=False)
                out += [0]
            raised = None
        except Exception as e:  # noqa: BLE001
            raised = e
            out += canon_exn(e)
        if 'type' not in vars(m):
            # the object no longer is a message at all (its attribute dictionary was emptied or replaced)
            out += [-8, -77, -9]
            if fail is None:
                fail = ('type-or-attrs-changed', '%r on %r left an object without a type: %r' % (op, before, vars(m)))
            break
        after = state_of(m)
        out += [-8] + canon_obj(m) + [-9]
        if fail is None:
            if raised is not None and canon_exn(raised) != [-1, 1]:
                fail = ('wrong-exception:' + type(raised).__name__, '%r on %r raised %r' % (op, before, raised))
            elif (raised is not None or op[0] == 'copy') and after != before:
                fail = ('mutated-by-rejected-op', '%r changed the object from %r to %r (raised %r)' % (op, before, after, raised))
            elif set(vars(m)) != keys or m.type != name:
                fail = ('type-or-attrs-changed', '%r changed type/attribute set: %r' % (op, vars(m)))
            elif not valid_msg(m) or canon_time(m.time) == [9]:
                fail = ('invalid-state', '%r on %r led to invalid %r' % (op, before, after))
            elif res is not None and (not valid_msg(res) or res.type != name or res is m):
                fail = ('invalid-copy', '%r on %r returned %r' % (op, before, vars(res)))
            elif op[0] == 'set' and raised is None and not in_domain(attr_name(op[1]), op[2]):
                fail = ('accepted-bad-value', '%r accepted on %r' % (op, before))
            elif op[0] == 'copy' and raised is None and not all(
                    (attr_name(a) == 'type' and v == ('str', name)) or
                    (attr_name(a) in canon.KINDS[kind][1] + ('time',) and in_domain(attr_name(a), v)) for a, v in op[1]):
                fail = ('accepted-bad-value', 'copy %r accepted on %r -> %r' % (op, before, vars(res)))
            elif op[0] == 'copy' and raised is None and op[1]:
                # equal to a freshly constructed message with those values
                merged = {k: v for k, v in before.items() if k != 'type'}
                for a, v in op[1]:
                    if attr_name(a) != 'type':
                        pv = py_val(v, 0)
                        merged[attr_name(a)] = list(pv) if attr_name(a) == 'data' and not isinstance(pv, str) else pv
                fresh = mido.Message(name, **merged)
                if not (fresh == res):
                    fail = ('copy-differs-from-fresh', 'copy %r of %r gave %r, fresh construction gives %r' % (op, before, res, fresh))
    return out, fail, 'hist:%d' % min(len(ops), 10)


def enc_op(op):
    if op[0] == 'set':
        return [0, op[1]] + enc_val(op[2])
    if op[0] == 'del':
        return [1, op[1]]
    if op[0] == 'copy':
        return [2] + enc_kw(op[1])
    return [3] + enc_val(op[1])


def mk_hist(kind, kw, ops):
    c = [kind] + enc_kw(kw)
    for op in ops:
        c += enc_op(op)
    CASE_HIST[tuple(c)] = (kind, kw, ops)
    return c


def job(j):
    tag, cases = j
    if tag == 'ctor':
        # the model sees the case without the entry-point marker
        rec = {'n': len(cases), 'dis': [], 'fail': [], 'dist': {}, 'hashes': set(), 'ndis': 0, 'nfail': 0}
        ios = []
        for c in cases:
            io, fail, t = impl_ctor(c)
            ios.append(io)
            rec['dist'][t] = rec['dist'].get(t, 0) + 1
            rec['hashes'].add(hash(tuple(c)))
            if fail:
                rec['nfail'] += 1
                if len(rec['fail']) < 20:
                    rec['fail'].append((fail[0], fail[1], {'component': 'ctor', 'case': c, 'kw': repr(CASE_KW[tuple(c[:-1])])}))
        mos = core.model_run([(COMP_CTOR, c[:-1]) for c in cases])
        for c, io, mo in zip(cases, ios, mos):
            if io != mo:
                rec['ndis'] += 1
                if len(rec['dis']) < 20:
                    rec['dis'].append((COMP_CTOR, c[:-1], io, mo))
        return 'ctor', rec
    rec = core.eval_cases(COMP_HIST, cases, impl_hist, repeat=60)
    for i, f in enumerate(rec['fail']):
        rec['fail'][i] = (f[0], f[1], dict(f[2], history=repr(CASE_HIST[tuple(f[2]['case'])])))
    return 'history', rec


def random_value(rng, name):
    vs = values_for(name)
    if name in canon.RANGES and rng.random() < 0.5:
        lo, hi = canon.RANGES[name]
        return ('int', rng.randint(lo, hi))
    if name == 'data' and rng.random() < 0.4:
        return ('seq', [('int', rng.randrange(128)) for _ in range(rng.randrange(6))])
    if name == 'time' and rng.random() < 0.5:
        return rng.choice([('int', rng.randrange(1000)), ('float', rng.randrange(1000))])
    return rng.choice(vs)


def random_op(rng, kind):
    own = list(canon.KINDS[kind][1]) + ['time']
    r = rng.random()
    pick = lambda: ATTR_ID[rng.choice(own)] if rng.random() < 0.8 else rng.choice(list(range(14)) + [100, 101, 100, 102, 103, 104, 105])
    if r < 0.45:
        a = pick()
        return ('set', a, random_value(rng, attr_name(a)))
    if r < 0.52:
        return ('del', pick())
    if r < 0.9:
        ovs, seen = [], set()
        for _ in range(rng.choice([0, 1, 1, 2, 3])):
            a = pick()
            if a in seen:
                continue
            seen.add(a)
            if attr_name(a) == 'type':
                ovs.append((a, ('str', rng.choice([canon.KINDS[kind][0], 'note_on', 'stop', 'x']))))
            else:
                ovs.append((a, random_value(rng, attr_name(a))))
        return ('copy', ovs)
    return ('iadd', random_value(rng, 'data'))


def type_argument(out):
    """the type itself (implementation against the statement): only the name of a message type makes a message; a status byte, a number
    equal to one, None, bytes ... as the type - through the constructor, from_dict, copy(type=) or assignment - must be rejected, and no
    message may come out whose type is not the string it was built with"""
    import mido
    n = 0
    bad_types = [0x90, 0x93, 0xf0, 0xf8, 144.0, 240.0, 0, 1, None, b'note_on', ('note_on',), ['note_on'], True, 'Note_On', 'note_on ', '', 'foo']
    for t in bad_types:
        for what, make in (('Message(%r)' % (t,), lambda: mido.Message(t)),
                           ('Message(%r, note=60, velocity=1)' % (t,), lambda: mido.Message(t, note=60, velocity=1)),
                           ('Message.from_dict(type=%r)' % (t,), lambda: mido.Message.from_dict({'type': t})),
                           ('Message.from_dict(type=%r, data)' % (t,), lambda: mido.Message.from_dict({'type': t, 'data': [1, 2]})),
                           ('copy(type=%r)' % (t,), lambda: mido.Message('note_on').copy(type=t))):
            n += 1
            try:
                m = make()
            except (ValueError, TypeError, AttributeError, LookupError):
                continue
            except Exception as e:  # noqa: BLE001
                out.failures.append(('type-argument-raises:' + type(e).__name__, '%s raised %r' % (what, e), {'component': 'type-argument', 'what': what}))
                continue
            out.failures.append(('type-argument-accepted', '%s returned a message of type %r' % (what, vars(m).get('type')), {'component': 'type-argument', 'what': what}))
        n += 1
        m = mido.Message('note_on')
        try:
            m.type = t
            out.failures.append(('type-assigned', 'assigning type = %r was accepted: %r' % (t, vars(m)), {'component': 'type-argument'}))
        except (ValueError, TypeError, AttributeError):
            if vars(m).get('type') != 'note_on':
                out.failures.append(('type-assigned', 'a rejected assignment type = %r changed the message: %r' % (t, vars(m)), {'component': 'type-argument'}))
    out.evaluations += n
    out.components['type argument (implementation against the statement)'] = {'cases': n}


def observed_during_check(out):
    """While a value is being checked the message must still hold what it held before: the value is an integer object that looks at the
    message whenever it is compared, converted or hashed (what another thread, or re-entrant code, could see at that moment).  Also:
    the same text / dict / value given twice must be judged twice (a first rejection must not make a second call accept)."""
    import mido
    n = 0
    seen = []

    def spy_class(msg_ref, attr):
        class Spy(int):
            def _look(self):
                m = msg_ref[0]
                if m is not None:
                    seen.append(vars(m).get(attr))

            def __le__(self, o):
                self._look(); return int.__le__(self, o)

            def __ge__(self, o):
                self._look(); return int.__ge__(self, o)

            def __lt__(self, o):
                self._look(); return int.__lt__(self, o)

            def __gt__(self, o):
                self._look(); return int.__gt__(self, o)

            def __eq__(self, o):
                self._look(); return int.__eq__(self, o)

            def __hash__(self):
                self._look(); return int.__hash__(self)

            def __index__(self):
                self._look(); return int.__index__(self)
        return Spy
    for typ, attr, old, bad in (('note_on', 'note', 5, 300), ('note_on', 'velocity', 7, -1), ('control_change', 'value', 9, 128), ('pitchwheel', 'pitch', 0, 9000),
                                ('songpos', 'pos', 3, 20000), ('program_change', 'channel', 2, 16)):
        for good in (False, True):
            n += 1
            ref = [None]
            m = mido.Message(typ, **{attr: old})
            ref[0] = m
            del seen[:]
            val = spy_class(ref, attr)(old + 1 if good else bad)
            try:
                setattr(m, attr, val)
                accepted = True
            except (ValueError, TypeError):
                accepted = False
            if accepted != good:
                out.failures.append(('spy-value', '%s.%s = %r (an int subclass) was %s' % (typ, attr, int(val), 'accepted' if accepted else 'rejected'),
                                     {'component': 'observed-during-check', 'type': typ, 'attr': attr}))
            elif any(v != old for v in seen) and not good:
                out.failures.append(('visible-before-checked', 'while %s.%s = %r was being checked (and then rejected) the message already held %r' % (typ, attr, int(val), [v for v in seen if v != old][0]),
                                     {'component': 'observed-during-check', 'type': typ, 'attr': attr}))
            elif not accepted and getattr(m, attr) != old:
                out.failures.append(('rejected-but-changed', 'a rejected assignment %s.%s = %r left %r' % (typ, attr, int(val), getattr(m, attr)), {'component': 'observed-during-check'}))
    # judged every time: a rejected text / dict / keyword value, given again, is rejected again; an accepted one gives an equal message again
    probes = [('from_str', lambda: mido.Message.from_str('note_on note=128')), ('from_str', lambda: mido.Message.from_str('note_on channel=16')),
              ('from_str', lambda: mido.Message.from_str('clock note=1')), ('from_str', lambda: mido.Message.from_str('sysex data=(1,128)')),
              ('from_dict', lambda: mido.Message.from_dict({'type': 'note_on', 'note': 200})), ('ctor', lambda: mido.Message('note_on', note=64.0)),
              ('ctor', lambda: mido.Message('note_on', velocity=True + 127)), ('copy', lambda: mido.Message('note_on').copy(note=1.0)),
              ('ctor', lambda: mido.Message('pitchwheel', pitch=8192)), ('parse_string', lambda: mido.parse_string('songpos pos=16384'))]
    mido.Message('note_on', note=64, velocity=64); mido.Message('note_on', note=1); mido.Message.from_str('note_on note=127')      # the int twins, accepted first
    for label, call in probes:
        for attempt in (1, 2, 3):
            n += 1
            try:
                got = call()
                out.failures.append(('accepted-on-repeat' if attempt > 1 else 'accepted', '%s: attempt %d returned %r (%r)' % (label, attempt, got, vars(got)),
                                     {'component': 'observed-during-check', 'probe': label, 'attempt': attempt}))
                break
            except (ValueError, TypeError, AttributeError):
                pass
    # the set of attributes never changes - not by using a (frozen) message as a dictionary key either
    from mido.frozen import freeze_message, thaw_message
    for m in (mido.Message('note_on', note=3, time=2), mido.Message('sysex', data=[1, 2]), mido.Message('clock'), mido.Message('pitchwheel', pitch=-5, time=0.5)):
        n += 1
        try:
            f = freeze_message(m)
            names = sorted(vars(f))
            hash(f); {f: 1}
            t = thaw_message(f)
            if sorted(vars(f)) != names or sorted(vars(t)) != sorted(vars(m)) or not (t == m) or not (mido.Message.from_dict(f.dict()) == m):
                out.failures.append(('attributes-changed-by-hash', 'after hash() the frozen form of %r has the attributes %r, its thawed form %r' % (m, sorted(vars(f)), sorted(vars(t))),
                                     {'component': 'observed-during-check', 'message': repr(m)}))
        except Exception as e:  # noqa: BLE001
            out.failures.append(('attributes-changed-by-hash', 'hashing the frozen form of %r and using it afterwards raised %r' % (m, e), {'component': 'observed-during-check'}))
    out.evaluations += n
    out.components['values that observe the message while being checked; repeated judgements (implementation against the statement)'] = {'cases': n}


def run(out):
    rng = random.Random(out.seed)
    ctor_cases = []
    for k, (name, attrs, _, _) in enumerate(canon.KINDS):
        names = list(attrs) + ['time']
        foreign = [a for a in ATTRS[:12] if a not in attrs][:3]
        for a in names:
            for v in values_for(a):
                c = mk_ctor(k, [(ATTR_ID[a], v)])
                ctor_cases.append(c + [0]); ctor_cases.append(c + [1])
                if v[0] == 'int' and a != 'data' or (a == 'data' and v[0] == 'seq' and all(x[0] == 'int' for x in v[1]) and len(v[1]) > 0):
                    ctor_cases.append(c + [2])
        for a in foreign:
            for v in [('int', 0), ('int', 1), ('none',)]:
                c = mk_ctor(k, [(ATTR_ID[a], v)])
                ctor_cases += [c + [0], c + [1], c + [2]] if v[0] == 'int' else [c + [0], c + [1]]
        for u in (100, 105):
            c = mk_ctor(k, [(u, ('int', 1))])
            ctor_cases += [c + [0], c + [1], c + [2]]
        ctor_cases.append(mk_ctor(k, []) + [0])
        for _ in range(40 if out.tier == 'quick' else 3000):
            kw, seen = [], set()
            for _ in range(rng.randrange(1, 4)):
                a = rng.choice(names) if rng.random() < 0.9 else rng.choice(foreign or names)
                if a in seen:
                    continue
                seen.add(a)
                kw.append((ATTR_ID[a], random_value(rng, a)))
            c = mk_ctor(k, kw)
            ctor_cases.append(c + [rng.choice([0, 1])])
    hist_cases = []
    nh = 60 if out.tier == 'quick' else 5000
    for k, (name, attrs, _, _) in enumerate(canon.KINDS):
        for _ in range(nh):
            kw = []
            for a in attrs:
                if rng.random() < 0.5:
                    v = random_value(rng, a)
                    if in_domain(a, v):
                        kw.append((ATTR_ID[a], v))
            ops = [random_op(rng, k) for _ in range(rng.randrange(1, 31 if rng.random() < 0.2 else 9))]
            hist_cases.append(mk_hist(k, kw, ops))
    # corpus: the repaired defect and close relatives
    hist_cases.append(mk_hist(7, [], [('copy', [(7, ('int', 5))]), ('copy', [(7, ('bool', True))]), ('copy', [(7, ('int', 0))]),
                                      ('copy', [(7, ('seq', [('int', 200)]))]), ('copy', [(7, ('bytes', [200]))]), ('copy', [(7, ('int', -1))])]))
    hist_cases.append(mk_hist(1, [], [('copy', [(7, ('int', 5))]), ('copy', [(7, ('seq', []))])]))
    jobs = []
    step = max(1, len(ctor_cases) // core.NPROC)
    jobs += [('ctor', ctor_cases[i:i + step]) for i in range(0, len(ctor_cases), step)]
    step = max(1, len(hist_cases) // core.NPROC)
    jobs += [('hist', hist_cases[i:i + step]) for i in range(0, len(hist_cases), step)]
    for tag, rec in core.pmap(job, jobs):
        core.merge_into(out, rec, tag)
    type_argument(out)
    observed_during_check(out)
    out.rule = ('constructor / from_dict / from_str with every attribute (own, foreign, unknown) of every type at min-1, min, min+1, mid, max-1, '
                'max, max+1, +-2^63 and float, str, None, opaque object, bool, list/tuple/generator, bytes/bytearray values, plus random '
                'keyword sets; histories of 1-30 operations (assignment, deletion, copy with overrides incl. type, data += ...) on one '
                'object with the object state compared after every step. ValueError/TypeError/AttributeError are one outcome class (the '
                'property allows any). Non-trivial: non-zero content; distinct by encoded case.')
    out.sample({'component': 'ctor', 'case': ctor_cases[40], 'kw': repr(CASE_KW[tuple(ctor_cases[40][:-1])])})
    out.sample({'component': 'history', 'history': repr(CASE_HIST[tuple(hist_cases[3])])})
    core.kernel_crosscheck(out, [(COMP_CTOR, c[:-1]) for c in rng.sample(ctor_cases, 120)] + [(COMP_HIST, c) for c in rng.sample(hist_cases, 60)], 'C03')
    out.assumptions += ['skip_checks=True and direct access to vars(msg) are outside the property', 'an unknown message TYPE raises LookupError in the '
                        'constructor: the property speaks of attributes, so it is not exercised here (C14 covers parse_string)',
                        'a generator assigned to msg.data (or used with +=) is consumed by the check before being stored, so the stored data is empty: valid state, wrong value; the harness uses lists/tuples/bytes there and generators only for the constructor and copy()']
