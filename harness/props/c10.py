"""C10 — ports deliver each message exactly once and in order under concurrent use (real threads under a deterministic scheduler)."""
import random

import canon
import core
import sched as S

THEOREMS_DEPEND_ON = ['Gen/AgreeCodec.v']
COMP = 120
COMP_MULTI = 121
COMP_FAN = 123
COMP_MIX = 126
COMP_HELPERS = 127
KINDS = {'echo': (0, 1), 'device': (1, 1), 'ioport': (1, 0)}      # -> (kind, same_lock) of Model/Conc.v


def mk(ints):
    import mido
    name, kw, _ = canon.kwargs_of(ints)
    return mido.Message(name, **kw)


class World:
    """one port of the given kind with every shared access turned into a yield point"""

    def __init__(self, kind, sc):
        import mido.ports as ports
        self.kind, self.sc, self.cable, self.sleeps, self.poplog, self.partial = kind, sc, [], [0], [], {}
        world = self

        def dev_send(self_, msg):
            for b in msg.bytes():
                sc.yield_point()
                world.cable.append(b)

        def dev_receive(self_, block=True):
            sc.yield_point()
            data = world.cable[:]
            del world.cable[:]
            self_._parser.feed(data)

        if kind == 'echo':
            port = ports.EchoPort()
            self.ports = [port]
            self.inp = self.outp = port
        elif kind == 'device':
            cls = type('Dev', (ports.BaseIOPort,), {'_send': dev_send, '_receive': dev_receive})
            port = cls('dev')
            self.ports = [port]
            self.inp = self.outp = port
        else:
            cin = type('DevIn', (ports.BaseInput,), {'_receive': dev_receive})('in')
            cout = type('DevOut', (ports.BaseOutput,), {'_send': dev_send})('out')
            self.ports = [cin, cout]
            self.inp, self.outp = cin, cout
        for p in self.ports:
            if not isinstance(p._lock, ports.DummyLock):
                p._lock = S.SchedLock(sc)
        self.real = self.inp._parser.messages
        self.inp._messages = S.DequeProxy(sc, self.real, self.poplog)
        if kind == 'ioport':
            port = ports.IOPort(self.inp, self.outp)
        self.port = port
        self.saved_sleep = ports.sleep

        def fake_sleep():
            sc.yield_point('sleeping')
            world.sleeps[0] += 1
        ports.sleep = fake_sleep

    def restore(self):
        import mido.ports as ports
        ports.sleep = self.saved_sleep


def body_for(world, prog, sent_objs, t):
    def body(results):
        for op in prog:
            if op[0] == 'send':
                m = mk(op[1])
                sent_objs.append((t, m, m.copy()))
                world.port.send(m)
                results.append(('sent',))
            elif op[0] == 'recv':
                results.append(('got', world.port.receive(block=bool(op[1]))))
            else:
                acc = []
                world.partial[t] = acc                 # what an unfinished iteration has taken so far (for the oracle)
                for m in world.port.iter_pending():
                    acc.append(m)
                results.append(('list', acc))
                world.partial[t] = []
    return body


def execute(kind, progs, policy, max_steps):
    """run the programs under the scheduling policy; returns (trace, output ints as Model/Wire.v run_conc prints them, oracle failure)"""
    sc = S.Sched(len(progs))
    world = World(kind, sc)
    sent_objs = []
    try:
        sc.start([body_for(world, p, sent_objs, t) for t, p in enumerate(progs)])
        cur_t, slept, spins = None, False, 0
        while len(sc.trace) < max_steps and any(st != 'done' for st in sc.state):
            t = policy(sc, cur_t, slept)
            if t is None:
                break
            sc.step(t)
            cur_t = t
            # a thread that sleeps again and again while nobody else can move will spin for ever: nothing more to see
            if sc.state[t] == 'sleeping' and not any(sc.enabled(u) for u in range(sc.n) if u != t):
                spins += 1
                if spins >= 2:
                    break
        out = []
        for t in range(len(progs)):
            oc = sc.outcome[t]
            if oc is None:
                out += [1, 0]
            elif oc[0] == 'raised':
                out += [2, core.exn_code(oc[1])]
            else:
                out += [0, 0]
            res = sc.results[t]
            fin = res
            out.append(len(fin))
            for r in fin:
                if r[0] == 'sent':
                    out += [0]
                elif r[0] == 'got':
                    out += [1, 0] if r[1] is None else [1, 1] + canon.msg_ints(r[1])
                else:
                    out += [2, len(r[1])] + [x for m in r[1] for x in canon.msg_ints(m)]
            out.append(-9)
        out += [len(world.real)] + [x for m in world.real for x in canon.msg_ints(m)]
        out += [len(world.cable)] + list(world.cable) + [world.sleeps[0]]
        complete = all(st == 'done' for st in sc.state)
        trace = list(sc.trace)
    finally:
        sc.stop()
        world.restore()
    fail = oracle(kind, progs, sc, world, sent_objs, complete)
    return trace, out, fail


def oracle(kind, progs, sc, world, sent_objs, complete):
    """the property's statement, on what the real threads did"""
    for t, oc in enumerate(sc.outcome):
        if oc is not None and oc[0] == 'raised':
            return ('raises:' + type(oc[1]).__name__, 'thread %d: %r under the schedule %r' % (t, oc[1], sc.trace))
    received = []
    for t in range(len(progs)):
        for r in sc.results[t]:
            if r[0] == 'got' and r[1] is not None:
                received.append(r[1])
            elif r[0] == 'list':
                received += r[1]
        received += world.partial.get(t, [])
    # whatever is still on its way: the rest of the cable through the port's own parser, then the queue
    if kind != 'echo':
        world.inp._parser.feed(world.cable)
    leftover = list(world.real)
    order = list(world.poplog) + leftover               # the order in which the port handed messages out / will hand them out
    key = lambda m: tuple(canon.msg_ints(m))
    sent_keys = [key(c) for _, _, c in sent_objs]
    got_keys = [key(m) for m in order]
    rk, pk = sorted(key(m) for m in received), sorted(key(m) for m in world.poplog)
    if (complete and rk != pk) or any(rk.count(k) > pk.count(k) for k in rk):
        return ('lost-after-pop', 'popped %r but the callers received %r' % (world.poplog, received))
    for k in got_keys:
        if k not in sent_keys:
            return ('not-intact', 'a message that nobody sent was received: %r (sent %r, schedule %r)' % (k, sent_keys, sc.trace))
    if len(set(got_keys)) != len(got_keys):
        return ('duplicate', 'a message was received twice: %r (schedule %r)' % (got_keys, sc.trace))
    if complete and sorted(got_keys) != sorted(sent_keys):
        return ('lost', 'sent %r but received / still queued %r (schedule %r)' % (sent_keys, got_keys, sc.trace))
    for t in range(len(progs)):
        mine = [key(c) for tt, _, c in sent_objs if tt == t]
        seen = [k for k in got_keys if k in mine]
        if seen != [k for k in mine if k in seen]:
            return ('order', 'messages of sender %d were received in the order %r, sent %r (schedule %r)' % (t, seen, mine, sc.trace))
    # what is received is a copy
    objs = {id(m) for _, m, _ in sent_objs}
    for m in order:
        if id(m) in objs:
            return ('not-a-copy', 'the received message %r is the very object that was sent' % (m,))
    before = [(key(m), m.time) for m in order]
    for _, m, _ in sent_objs:
        m.time = 4242
        if hasattr(m, 'velocity'):
            m.velocity = (m.velocity + 1) % 128
        elif hasattr(m, 'data'):
            m.data = (9, 9)
    if [(key(m), m.time) for m in order] != before:
        return ('not-a-copy', 'changing the sent objects afterwards changed the received messages')
    return None


# ---------------------------------------------------------------- MultiPort (fan-in and fan-out): implementation against the statement
class MultiWorld:
    """MultiPort over two EchoPorts; ports[0] is the MultiPort, ports[1], ports[2] the sub-ports; every lock and deque is scheduled"""

    def __init__(self, sc):
        import mido.ports as ports
        self.sc, self.sleeps = sc, [0]
        subs = [ports.EchoPort(), ports.EchoPort()]
        multi = ports.MultiPort(subs)
        self.ports = [multi] + subs
        self.real, self.poplogs = [], []
        for p in self.ports:
            p._lock = S.SchedLock(sc)
            real, log = p._parser.messages, []
            p._messages = S.DequeProxy(sc, real, log)
            self.real.append(real); self.poplogs.append(log)
        self.saved = ports.sleep, ports.random.shuffle
        world = self
        # MultiPort._receive (the documented hook a port fills its deque from) adds what it collected to the MultiPort's own deque, under the
        # MultiPort's lock: one access, however the additions are spelt (see DequeProxy.collect)
        inner, own = multi._receive, multi._messages

        def bracketed_receive(*a, **kw):
            own.collect()
            try:
                r = inner(*a, **kw)
            except BaseException:
                own.real.extend(own.batch or [])      # an exception (or the teardown of this thread): no further yield point
                own.batch = None
                raise
            own.flush()
            return r
        multi._receive = bracketed_receive

        def fake_sleep():
            sc.yield_point('sleeping')
            world.sleeps[0] += 1
        ports.sleep = fake_sleep
        ports.random.shuffle = lambda x: None
        self.sublist = list(subs)       # the caller's own list, as handed to multi_send / multi_receive

    def restore(self):
        import mido.ports as ports
        ports.sleep, ports.random.shuffle = self.saved


def execute_multi(kind, progs, policy, max_steps):
    sc = S.Sched(len(progs))
    world = MultiWorld(sc)
    sent, partial = [], {}

    def body_for_multi(prog, t):
        def body(results):
            for op in prog:
                port = world.ports[op[-1]] if op[0] in ('send', 'recv', 'iterp') else None
                if op[0] == 'send':
                    m = mk(op[1])
                    sent.append((t, op[-1], m, m.copy()))
                    port.send(m)
                    results.append(('sent',))
                elif op[0] == 'recv':
                    results.append(('got', port.receive(block=bool(op[1]))))
                elif op[0] == 'msend':
                    # the helper functions on the caller's list of ports (the polling order is NOT the list order here: see below)
                    import mido.ports as P
                    m = mk(op[1])
                    sent.append((t, 0, m, m.copy()))
                    P.multi_send(world.sublist, m)
                    results.append(('sent',))
                elif op[0] == 'mrecv':
                    import mido.ports as P
                    acc = []
                    partial[t] = acc
                    for m in P.multi_receive(world.sublist, block=False):
                        acc.append(m)
                    results.append(('list', acc))
                    partial[t] = []
                else:
                    acc = []
                    partial[t] = acc
                    for m in port.iter_pending():
                        acc.append(m)
                    results.append(('list', acc))
                    partial[t] = []
        return body
    helpers = any(op[0] in ('msend', 'mrecv') for p in progs for op in p)
    if helpers:
        import mido.ports as P
        P.random.shuffle = lambda x: x.reverse()        # a polling order that differs from the list order, every time
    try:
        sc.start([body_for_multi(p, t) for t, p in enumerate(progs)])
        cur_t, spins = None, 0
        while len(sc.trace) < max_steps and any(st != 'done' for st in sc.state):
            t = policy(sc, cur_t, False)
            if t is None:
                break
            sc.step(t)
            cur_t = t
            if sc.state[t] == 'sleeping' and not any(sc.enabled(u) for u in range(sc.n) if u != t):
                spins += 1
                if spins >= 2:
                    break
        complete = all(st == 'done' for st in sc.state)
        trace = list(sc.trace)
        out = []
        for t in range(len(progs)):
            oc = sc.outcome[t]
            out += [1, 0] if oc is None else ([2, core.exn_code(oc[1])] if oc[0] == 'raised' else [0, 0])
            res = sc.results[t]
            out.append(len(res))
            for r in res:
                if r[0] == 'sent':
                    out += [0]
                elif r[0] == 'got':
                    out += [1, 0] if r[1] is None else [1, 1] + canon.msg_ints(r[1])
                else:
                    out += [2, len(r[1])] + [x for m in r[1] for x in canon.msg_ints(m)]
            out.append(-9)
        for real in world.real:
            out += [len(real)] + [x for m in real for x in canon.msg_ints(m)]
        out.append(world.sleeps[0])
    finally:
        sc.stop()
        world.restore()
    fail = None
    key = lambda m: tuple(canon.msg_ints(m))
    for t, oc in enumerate(sc.outcome):
        if oc is not None and oc[0] == 'raised':
            fail = ('raises:' + type(oc[1]).__name__, 'MultiPort scenario, thread %d: %r under the schedule %r' % (t, oc[1], trace))
    if fail is None:
        received = []
        for t in range(len(progs)):
            for r in sc.results[t]:
                if r[0] == 'got' and r[1] is not None:
                    received.append(r[1])
                elif r[0] == 'list':
                    received += r[1]
            received += partial.get(t, [])
        # a message sent on a sub-port exists once; one sent on the MultiPort once per sub-port; it may sit in any queue or have been handed out
        expected = {}
        for t, pidx, m, c in sent:
            expected[key(c)] = 2 if pidx == 0 else 1
        # copies that moved from a sub-port into the MultiPort's queue were popped from the sub-port: count only final places
        final = [key(m) for m in received] + [key(m) for real in world.real for m in real]
        for k in set(final):
            if k not in expected:
                fail = ('not-intact', 'MultiPort scenario: a message nobody sent turned up: %r (schedule %r)' % (k, trace))
            elif final.count(k) > expected[k]:
                fail = ('duplicate', 'MultiPort scenario: %r exists %d times, expected at most %d (schedule %r)' % (k, final.count(k), expected[k], trace))
        if fail is None and complete:
            for k, n in expected.items():
                if final.count(k) != n:
                    fail = ('lost', 'MultiPort scenario: %r exists %d times at the end, expected %d (schedule %r)' % (k, final.count(k), n, trace))
        if fail is None:
            for d in range(3):
                order = [key(m) for m in world.poplogs[d]] + [key(m) for m in world.real[d]]
                for t in range(len(progs)):
                    for e in range(3):
                        if d == 0 and e == 0:
                            # a message sent on the MultiPort exists once per sub-port; swept back into the MultiPort's own deque the copies
                            # of the several sub-ports stand one sub-port after the other (and some may have been taken from a sub-port
                            # directly): their order is that of each sub-port's deque, checked there (d = 1, 2), not of deque 0
                            continue
                        mine_ = [key(c) for tt, pidx, _, c in sent if tt == t and pidx == e]
                        seen = [k for k in order if k in mine_]
                        first = []
                        for k in seen:
                            if k not in first:
                                first.append(k)
                        if first != [k for k in mine_ if k in first]:
                            fail = ('order', 'MultiPort scenario: messages of sender %d on port %d left queue %d in the order %r, sent %r (schedule %r)' % (t, e, d, seen, mine_, trace))
        if fail is None and complete:
            # a message sent through the MultiPort (or multi_send) reaches EVERY sub-port exactly once
            for t, pidx, m, c in sent:
                if pidx == 0:
                    for d_ in (1, 2):
                        cnt = [key(x) for x in world.poplogs[d_]].count(key(c)) + [key(x) for x in world.real[d_]].count(key(c))
                        if cnt != 1:
                            fail = ('fan-out', 'MultiPort scenario: the message %r sent to all sub-ports reached sub-port %d %d times (schedule %r)' % (key(c), d_, cnt, trace))
        if fail is None:
            # what ONE receiver gets from ONE sender (on one port) comes in the order it was sent
            for t in range(len(progs)):
                got_t = []
                for r in sc.results[t]:
                    if r[0] == 'got' and r[1] is not None:
                        got_t.append(key(r[1]))
                    elif r[0] == 'list':
                        got_t += [key(m) for m in r[1]]
                got_t += [key(m) for m in partial.get(t, [])]
                for u in range(len(progs)):
                    for e in (1, 2):          # sent on a sub-port: the message exists once (one sent through the MultiPort exists once PER sub-port; its order is checked per queue above)
                        mine_ = [key(c) for tt, pidx, _, c in sent if tt == u and pidx == e]
                        idx = [mine_.index(k) for k in got_t if k in mine_]
                        if any(a > b for a, b in zip(idx, idx[1:])):
                            fail = ('receiver-order', 'MultiPort scenario: thread %d received the messages of sender %d (sent on port %d as %r) in the order %r (schedule %r)'
                                    % (t, u, e, mine_, [k for k in got_t if k in mine_], trace))
        if fail is None:
            objs = {id(m) for _, _, m, _ in sent}
            if any(id(m) in objs for m in received):
                fail = ('not-a-copy', 'MultiPort scenario: a received message is the very object that was sent')
    return trace, out, fail


# ---------------------------------------------------------------- policies
def explicit(trace):
    it = iter(trace)

    def policy(sc, cur_t, slept):
        return next(it, None)
    return policy


def default_choice(sc, cur_t):
    """non-preemptive: keep running the current thread while it can go on; a sleeping, blocked or finished thread hands over round-robin"""
    n = sc.n
    if cur_t is not None and sc.enabled(cur_t) and sc.state[cur_t] != 'sleeping':
        return cur_t
    start = 0 if cur_t is None else cur_t + 1
    for i in range(n):
        t = (start + i) % n
        if sc.enabled(t):
            return t
    return None


def explore(kind, progs, max_preempt, max_steps, limit, executor=None):
    """every schedule with at most max_preempt preemptions (stateless depth-first search; each schedule is a fresh run)"""
    runs = []
    stack = [([], 0)]
    while stack and len(runs) < limit:
        prefix, used = stack.pop()
        alts = []                       # (step index, alternative tid, preemptions used so far incl. this one)

        def policy(sc, cur_t, slept, prefix=prefix, used=used, alts=alts):
            i = len(sc.trace)
            if i < len(prefix):
                return prefix[i]
            d = default_choice(sc, cur_t)
            if d is None:
                return None
            pre = policy.pre
            preempting = cur_t is not None and sc.enabled(cur_t) and sc.state[cur_t] != 'sleeping'
            for t in range(sc.n):
                if t != d and sc.enabled(t):
                    cost = 1 if preempting else 0
                    if pre + cost <= max_preempt:
                        alts.append((i, t, pre + cost))
            return d
        policy.pre = used
        trace, out, fail = (executor or execute)(kind, progs, policy, max_steps)
        runs.append((trace, out, fail))
        for i, t, pre in alts:
            stack.append((trace[:i] + [t], pre))
    return runs, not stack


def random_policy(rng, p_switch):
    def policy(sc, cur_t, slept):
        live = [t for t in range(sc.n) if sc.state[t] != 'done']
        if not live:
            return None
        if cur_t in live and rng.random() > p_switch:
            return cur_t
        return rng.choice(live)             # may pick a blocked thread: a no-op step, as in the model
    return policy


def priority_policy(rng, n):
    prio = list(range(n))
    rng.shuffle(prio)
    change = {rng.randrange(60) for _ in range(2)}

    def policy(sc, cur_t, slept):
        if len(sc.trace) in change:
            rng.shuffle(prio)
        for t in prio:
            if sc.enabled(t) and not (sc.state[t] == 'sleeping' and any(sc.enabled(u) and sc.state[u] != 'sleeping' for u in range(sc.n) if u != t)):
                return t
        return None
    return policy


# ---------------------------------------------------------------- cases
def enc_case(kind, progs, trace):
    k, same = KINDS[kind]
    c = [1, k, same, len(progs)]
    for p in progs:
        c.append(len(p))
        for op in p:
            if op[0] == 'send':
                c += [0] + list(op[1])
            elif op[0] == 'recv':
                c += [1, op[1]]
            else:
                c += [2]
    return c + list(trace)


def enc_multi_case(progs, trace):
    c = [2, len(progs)]
    for p in progs:
        c.append(len(p))
        for op in p:
            if op[0] == 'send':
                c += [0, op[-1] - 1] + list(op[1])
            elif op[0] == 'recv':
                c += [1, op[1]]
            else:
                c += [2]
    return c + list(trace)


def enc_fan_case(progs, trace):
    c = [2, len(progs)]
    for p in progs:
        c.append(len(p))
        for op in p:
            if op[0] == 'send':
                c += [0] + list(op[1])
            elif op[0] == 'recv':
                c += [1, op[-1] - 1, op[1]]
            else:
                c += [2, op[-1] - 1]
    return c + list(trace)


def enc_mix_case(progs, trace):
    """any mix of uses: port 0 is the MultiPort, 1 and 2 the sub-ports (Model/ConcMix.v)"""
    c = [2, len(progs)]
    for p in progs:
        c.append(len(p))
        for op in p:
            if op[0] == 'send':
                c += [0, op[-1]] + list(op[1])
            elif op[0] == 'recv':
                c += [1, op[-1], op[1]]
            else:
                c += [2, op[-1]]
    return c + list(trace)


def enc_helper_case(progs, trace):
    """programs that (also) call multi_send / multi_receive on the caller's list of the two sub-ports (Model/ConcHelpers.v): the list is
    [1, 2] and the harness makes random.shuffle reverse it in place at every poll, so the k-th multi_receive of a thread polls in the
    order the list has after k reversals - and a multi_send of the same thread after it walks the list as the last reversal left it"""
    c = [2, len(progs)]
    order = [1, 2]                 # world.sublist is shared by all threads; multi_receive copies it (list(ports)) before shuffling
    for p in progs:
        c.append(len(p))
        for op in p:
            if op[0] == 'send':
                c += [0, op[-1]] + list(op[1])
            elif op[0] == 'recv':
                c += [1, op[-1], op[1]]
            elif op[0] == 'msend':
                c += [3, 2, 1, 2] + list(op[1])
            elif op[0] == 'mrecv':
                c += [4, 2, 2, 1]
            else:
                c += [2, op[-1]]
    return c + list(trace)


def replay_helpers(rec, runs, progs, mode):
    """every run of a program that calls the helper functions is replayed on Model/ConcHelpers.v"""
    cache, cases = {}, []
    for trace, out, fail in runs:
        c = enc_helper_case(progs, trace)
        if tuple(c) not in cache:
            cache[tuple(c)] = (out, None, 'multi-helpers:' + mode)
            cases.append(c)
    r2 = core.eval_cases(COMP_HELPERS, cases, lambda c: cache[tuple(c)])
    rec['dis'] += r2['dis']; rec['ndis'] += r2['ndis']
    for k, v in r2['dist'].items():
        rec['dist'][k] = rec['dist'].get(k, 0) + v
    return rec


def replay_mix(rec, runs, progs, mode):
    """every run of a program without the helper functions is (also) replayed on Model/ConcMix.v"""
    cache, cases = {}, []
    for trace, out, fail in runs:
        c = enc_mix_case(progs, trace)
        if tuple(c) not in cache:
            cache[tuple(c)] = (out, None, 'multi-mix:' + mode)
            cases.append(c)
    r2 = core.eval_cases(COMP_MIX, cases, lambda c: cache[tuple(c)])
    rec['dis'] += r2['dis']; rec['ndis'] += r2['ndis']
    for k, v in r2['dist'].items():
        rec['dist'][k] = rec['dist'].get(k, 0) + v
    return rec


def dec_case(case):
    kind = {(0, 1): 'echo', (1, 1): 'device', (1, 0): 'ioport'}[(case[1], case[2])]
    n, i, progs = case[3], 4, []
    for _ in range(n):
        k = case[i]; i += 1
        p = []
        for _ in range(k):
            if case[i] == 0:
                _, _, rest = canon.kwargs_of(case[i + 1:])
                ln = len(case[i + 1:]) - len(rest)
                p.append(('send', case[i + 1:i + 1 + ln])); i += 1 + ln
            elif case[i] == 1:
                p.append(('recv', case[i + 1])); i += 2
            else:
                p.append(('iterp',)); i += 1
        progs.append(p)
    return kind, progs, case[i:]


def impl_replay(case):
    """a stored case: run the programs under exactly this schedule"""
    kind, progs, trace = dec_case(case)
    _, out, fail = execute(kind, progs, explicit(trace), len(trace) + 1)
    return out, fail, kind


def job(j):
    mode, kind, progs, arg, seed = j
    rng = random.Random(seed)
    if kind == 'multi':
        if mode == 'explore':
            runs, exhausted = explore(kind, progs, arg[0], arg[1], arg[2], executor=execute_multi)
        else:
            runs = [execute_multi(kind, progs, random_policy(rng, rng.choice([0.1, 0.3, 0.6])), arg[1]) for _ in range(arg[0])]
            exhausted = False
        helper_use = any(op[0] in ('msend', 'mrecv') for p in progs for op in p)
        fan_in = not helper_use and all((op[0] == 'send' and op[-1] >= 1) or (op[0] != 'send' and op[-1] == 0) for p in progs for op in p)
        if fan_in:
            # senders on the sub-ports, receivers on the MultiPort: this is what Model/ConcMulti.v describes - replay every run on it
            cache, cases = {}, []
            for trace, out, fail in runs:
                c = enc_multi_case(progs, trace)
                if tuple(c) not in cache:
                    cache[tuple(c)] = (out, fail, 'multi-fan-in:' + mode)
                    cases.append(c)
            rec = core.eval_cases(COMP_MULTI, cases, lambda c: cache[tuple(c)])
            return (kind, mode, exhausted, len(runs)), replay_mix(rec, runs, progs, mode)
        fan_out = not helper_use and all((op[0] == 'send' and op[-1] == 0) or (op[0] != 'send' and op[-1] >= 1) for p in progs for op in p)
        if fan_out:
            # senders on the MultiPort, receivers on the sub-ports: this is what Model/ConcFan.v describes - replay every run on it
            cache, cases = {}, []
            for trace, out, fail in runs:
                c = enc_fan_case(progs, trace)
                if tuple(c) not in cache:
                    cache[tuple(c)] = (out, fail, 'multi-fan-out:' + mode)
                    cases.append(c)
            rec = core.eval_cases(COMP_FAN, cases, lambda c: cache[tuple(c)])
            return (kind, mode, exhausted, len(runs)), replay_mix(rec, runs, progs, mode)
        rec = {'n': len(runs), 'dis': [], 'fail': [], 'dist': {'multi:' + mode: len(runs)}, 'hashes': {hash(tuple(r[0])) for r in runs}, 'ndis': 0, 'nfail': 0}
        for trace, _, fail in runs:
            if fail is not None:
                rec['nfail'] += 1
                if len(rec['fail']) < 20:
                    rec['fail'].append((fail[0], fail[1], {'component': 'multiport', 'programs': repr(progs), 'schedule': trace}))
        if not helper_use:
            replay_mix(rec, runs, progs, mode)
        elif not any(op[0] in ('recv', 'iterp') and op[-1] == 0 for p in progs for op in p):
            # (with the helper functions in use the harness reverses every polling order, the MultiPort's own sweep included, and the model
            # sweeps in list order: programs that also receive on the MultiPort itself are left to the oracle)
            replay_helpers(rec, runs, progs, mode)
        return (kind, mode, exhausted, len(runs)), rec
    if mode == 'explore':
        runs, exhausted = explore(kind, progs, arg[0], arg[1], arg[2])
    elif mode == 'random':
        runs = [execute(kind, progs, random_policy(rng, rng.choice([0.1, 0.3, 0.6])), arg[1]) for _ in range(arg[0])]
        exhausted = False
    elif mode == 'priority':
        runs = [execute(kind, progs, priority_policy(rng, len(progs)), arg[1]) for _ in range(arg[0])]
        exhausted = False
    else:
        runs = [execute(kind, progs, explicit(arg), len(arg) + 1)]
        exhausted = False
    cache = {}
    cases = []
    for trace, out, fail in runs:
        c = enc_case(kind, progs, trace)
        if tuple(c) not in cache:
            cache[tuple(c)] = (out, fail, kind + ':' + mode)
            cases.append(c)
    rec = core.eval_cases(COMP, cases, lambda c: cache[tuple(c)])
    return (kind, mode, exhausted, len(runs)), rec


def programs(rng, quick):
    uid = [0]
    realtime_left = [12, 13, 14, 15, 16, 17]          # clock, start, continue, stop, active_sensing, reset: each at most once (they carry no data)

    def msg():
        uid[0] += 1
        r = rng.random()
        if r < 0.12 and realtime_left:
            return [realtime_left.pop(rng.randrange(len(realtime_left)))]
        if r < 0.7:
            return [1, rng.randrange(16), uid[0] % 128, 1 + uid[0] // 128]            # note_on, unique (note, velocity)
        if r < 0.8:
            return [4, rng.randrange(16), uid[0] % 128]                                # program_change
        if r < 0.9:
            return [7, 2, uid[0] % 128, uid[0] // 128]                                 # sysex
        return [3, 0, uid[0] % 128, 1 + uid[0] // 128]
    small = [
        [[('send', [12])], [('recv', 0)], [('recv', 0)]],
        [[('send', msg()), ('send', msg())], [('send', msg())], [('iterp',)]],
        [[('send', msg())], [('send', msg())], [('recv', 1)], [('recv', 0)]],
        [[('send', msg()), ('recv', 0)], [('send', msg()), ('recv', 1)]],
        [[('send', msg()), ('send', msg())], [('recv', 1), ('recv', 1)]],
        [[('send', msg())], [('iterp',), ('iterp',)], [('recv', 0), ('recv', 0)]],
    ]
    more = []
    for _ in range(6 if quick else 40):
        ns, nr = rng.randrange(1, 4), rng.randrange(1, 3)
        progs = [[('send', msg()) for _ in range(rng.randrange(1, 4))] for _ in range(ns)]
        progs += [[rng.choice([('recv', 0), ('recv', 0), ('recv', 1), ('iterp',)]) for _ in range(rng.randrange(1, 4))] for _ in range(nr)]
        more.append(progs)
    return small, more


def run(out):
    rng = random.Random(out.seed)
    quick = out.tier == 'quick'
    small, more = programs(rng, quick)
    jobs = []
    for kind in KINDS:
        for progs in small:
            jobs.append(('explore', kind, progs, (2 if quick else 3, 90, 1500 if quick else 40000), rng.randrange(1 << 30)))
        for progs in more:
            jobs.append(('random', kind, progs, (25 if quick else 300, 400), rng.randrange(1 << 30)))
            jobs.append(('priority', kind, progs, (10 if quick else 100, 400), rng.randrange(1 << 30)))
    m1, m2, m3 = programs(rng, quick)[0][0][0][0][1], programs(rng, quick)[0][1][0][0][1], programs(rng, quick)[0][1][0][1][1]
    multi_progs = [
        [[('send', m1, 1)], [('send', m2, 2)], [('recv', 0, 0)], [('recv', 0, 0)]],                      # fan-in, two pollers
        [[('send', m1, 1), ('send', m2, 1)], [('recv', 1, 0)], [('iterp', 0)]],                           # fan-in, order from one sender
        [[('send', m1, 1), ('send', m2, 1), ('send', m3, 1)], [('recv', 0, 0), ('recv', 0, 0)], [('recv', 0, 0)]],   # fan-in, three in a row, two pollers
        [[('send', m1, 0)], [('recv', 0, 1)], [('recv', 0, 2)], [('recv', 0, 1)]],                        # fan-out
        [[('send', m1, 0)], [('send', m2, 0)], [('recv', 1, 1), ('recv', 0, 1)], [('iterp', 2)]],          # fan-out, two senders: one order on both sub-ports
        [[('send', m1, 0), ('send', m2, 0)], [('iterp', 1)], [('recv', 0, 2), ('recv', 1, 2)]],            # fan-out, order from one sender
        [[('send', m1, 1)], [('send', m2, 2)], [('recv', 1, 0)], [('recv', 0, 1)]],                       # via the MultiPort and directly
        [[('send', m1, 0), ('send', m2, 1)], [('iterp', 0)], [('recv', 0, 2), ('recv', 0, 0)]],
    ]
    multi_progs += [
        [[('msend', m1)], [('mrecv',)], [('recv', 0, 1)]],                                                # the helper functions on one shared list of ports
        [[('msend', m1), ('msend', m2)], [('mrecv',), ('mrecv',)]],
        [[('msend', m1), ('send', m2, 0)], [('mrecv',), ('iterp', 1)], [('send', m3, 2), ('mrecv',)]],   # helper calls mixed with sends through the MultiPort and directly
        [[('msend', m1)], [('msend', m2)], [('mrecv',)], [('recv', 0, 2), ('recv', 0, 2)]],               # two helper senders: both sub-ports, drained by a helper and by a direct receiver
    ]
    # any mix of uses at once: every thread sends on, receives from and iterates over the MultiPort and its sub-ports as it likes
    fresh = [2000]

    def fresh_msg():
        fresh[0] += 1
        return [1, 15, fresh[0] % 128, 1 + (fresh[0] // 128) % 127]
    for _ in range(5 if quick else 60):
        progs = []
        for _t in range(rng.randrange(2, 5)):
            p = []
            for _o in range(rng.randrange(1, 4)):
                r = rng.random()
                if r < 0.45:
                    p.append(('send', fresh_msg(), rng.randrange(3)))
                elif r < 0.8:
                    p.append(('recv', rng.choice([0, 0, 1]), rng.randrange(3)))
                else:
                    p.append(('iterp', rng.randrange(3)))
            progs.append(p)
        multi_progs.append(progs)
    for progs in multi_progs:
        # the three-in-a-row program needs two preemptions (the sender held back after two sends, a poller between its two looks at the queue)
        deep = len(progs[0]) == 3
        jobs.append(('explore', 'multi', progs, ((2 if deep else 1) if quick else (3 if deep else 2), 140, (4000 if deep else 700) if quick else 20000), rng.randrange(1 << 30)))
        jobs.append(('random', 'multi', progs, (40 if quick else 1000, 300), rng.randrange(1 << 30)))
    explored = {}
    for (kind, mode, exhausted, nruns), rec in core.pmap(job, jobs):
        core.merge_into(out, rec, '%s port, %s schedules' % (kind, mode))
        e = explored.setdefault((kind, mode), [0, 0, 0])
        e[0] += 1; e[1] += nruns; e[2] += int(exhausted)
    out.extra['schedule_exploration'] = {'%s/%s' % k: {'programs': v[0], 'schedules_run': v[1], 'programs_with_all_schedules_within_the_preemption_bound': v[2]}
                                         for k, v in sorted(explored.items())}
    out.rule = ('programs of 1-3 sender threads and 1-2 receiver threads (send / receive(block) / poll / iter_pending, distinct messages of 2-4 bytes) on an EchoPort, a device '
                'port with a byte-wise loop-back device and the IOPort wrapper over an input and an output port joined by a cable; REAL threads on the real mido/ports.py under a '
                'deterministic scheduler whose yield points are the lock, the deque and the device; for %d small programs every schedule with at most %d preemptions '
                '(depth-first, stateless), for %d larger ones seeded random and priority schedules; each executed schedule is replayed on the model (same thread ids, same '
                'steps) and the per-thread results, the final queue, the device buffer and the number of sleeps are compared; the oracle checks on the real run: no exception, '
                'nothing lost / duplicated / invented, per-sender order, received objects are copies. MultiPort (fan-in from and fan-out to two EchoPorts, every lock and deque '
                'scheduled): the same oracle on the real run; pure fan-in runs are replayed on ConcMulti.v, pure fan-out runs on ConcFan.v, and EVERY run without the helper functions - fan-in, fan-out and any mix of uses, random programs of 2-4 threads using all three ports included - on ConcMix.v; runs that call the helper functions multi_send / multi_receive on a shared list of ports (polled in an order other than the list order) are replayed on ConcHelpers.v (a helper call expanded into the sends / drains it spells out, results folded back to one per call), except programs that also receive on the MultiPort itself (the harness reverses every polling order then, that of the sweep too), which are left to the oracle. Non-trivial: every run; distinct by schedule.'
                % (len(small), 2 if quick else 3, len(more)))
    from props import c10_copy
    ncopy = c10_copy.run(out, rng)
    # the queue the backends feed from their callback threads (mido/backends/_parser_queue.py): several threads in put_bytes, one polling
    from props import threads_extra
    nq, exq, npq, fq, rq = threads_extra.pqueue_scenarios(quick)
    threads_extra.replay_on_model(out, threads_extra.COMP_PQ, rq, 'ParserQueue runs replayed on ConcPQ.v')
    out.evaluations += nq
    out.components['ParserQueue fed from several threads (scheduled, implementation against the statement)'] = {
        'cases': nq, 'programs': npq, 'programs_with_all_schedules_within_the_preemption_bound': exq, 'oracle_failures': len(fq)}
    for f in fq[:10]:
        out.failures.append((f[0], f[1], {'component': 'parser-queue-threads'}))
    out.rule += (' Copies: %d histories of creating, editing, sending, receiving and editing again on every port kind (EchoPort by receive / poll / iter_pending, IOPort over one '
                 'EchoPort and over an input and an output joined by a cable, MultiPort fan-in with and without yield_ports, MultiPort fan-out to 1-3 sub-ports) against the '
                 'heap model SendCopy.v and the statement (value at send time, identity).' % ncopy)
    out.sample({'component': COMP, 'case': enc_case('echo', small[0], [0, 0, 0, 1, 1, 1, 1, 2, 2, 2])})
    cases = [enc_case(k, small[i % len(small)], [rng.randrange(len(small[i % len(small)])) for _ in range(40)]) for i, k in enumerate(['echo', 'device', 'ioport'] * 10)]
    mixcases = [enc_mix_case(pr, [rng.randrange(len(pr)) for _ in range(60)]) for pr in multi_progs if not any(op[0] in ('msend', 'mrecv') for p in pr for op in p)]
    helpercases = [enc_helper_case(pr, [rng.randrange(len(pr)) for _ in range(80)]) for pr in multi_progs
                   if any(op[0] in ('msend', 'mrecv') for p in pr for op in p) and not any(op[0] in ('recv', 'iterp') and op[-1] == 0 for p in pr for op in p)]
    core.kernel_crosscheck(out, [(COMP, c) for c in cases] + [(COMP_MIX, c) for c in mixcases[:12]] + [(COMP_HELPERS, c) for c in helpercases[:6]], 'C10')
    out.assumptions += ['CPython runs one bytecode of one thread at a time (GIL) and the methods of collections.deque and threading.RLock are atomic; what a thread does between two '
                        'accesses to the lock, the deque, the device or sleep() touches nothing shared - so interleaving at those accesses covers every interleaving',
                        'the scheduler replaces the port\'s RLock, deque and sleep by stand-ins with the same behaviour plus a yield point; DummyLock is left as it is',
                        'threads that are still waiting when the step bound is reached are torn down; such runs are compared up to that point',
                        'the copy theorems (SendCopy.v) speak about sequential histories of creating, editing, sending and receiving objects: the copy is made inside send(), '
                        'under the port\'s lock, so the interleaving theorems and the copy theorems compose; a caller editing an object WHILE its own send() of it runs is outside both',
                        'what a port adds to its own deque inside _receive (MultiPort) is treated as one access to the deque, whether spelt as one extend() or as an append() per message']
