"""Shared generators, runners and oracles for the parser properties C04, C05, C06."""
import copy
import itertools
import random

import canon
import core

COMP_PARSE, COMP_TOKENS, COMP_POPS, COMP_QOPS, COMP_IOPS = 10, 11, 12, 13, 14

# one representative per byte class (three data bytes so that value-dependent decoding is reached)
ALPHABET = [0x00, 0x4a, 0x7f, 0x90, 0xc5, 0xe3, 0xf0, 0xf1, 0xf2, 0xf3, 0xf4, 0xf6, 0xf7, 0xf8, 0xf9, 0xfe, 0xff]
RT_DEFINED = {0xf8, 0xfa, 0xfb, 0xfc, 0xfe, 0xff}


def all_strings(maxlen, alphabet=ALPHABET):
    for n in range(maxlen + 1):
        for t in itertools.product(alphabet, repeat=n):
            yield list(t)


def random_stream(rng, maxlen=400):
    n = rng.randrange(1, maxlen)
    out = []
    while len(out) < n:
        r = rng.random()
        if r < 0.45:
            out.extend(canon.std_layout(canon.random_message(rng, sysex_max=12)))       # a whole message
        elif r < 0.60:
            bs = canon.std_layout(canon.random_message(rng, sysex_max=12))
            out.extend(bs[:rng.randrange(len(bs) + 1)])                                 # a message cut short
        elif r < 0.85:
            out.append(rng.choice([0x80, 0x9f, 0xb1, 0xc0, 0xdf, 0xe0, 0xf0, 0xf1, 0xf2, 0xf3, 0xf4, 0xf5, 0xf6, 0xf7,
                                   0xf8, 0xf9, 0xfa, 0xfb, 0xfc, 0xfd, 0xfe, 0xff]))    # a status byte
        else:
            out.append(rng.randrange(256))
    return out[:n]


def msgs_out(ms):
    out = [len(ms)]
    for m in ms:
        out += canon.msg_ints(m)
    return out


def is_subseq(a, b):
    it = iter(b)
    return all(any(x == y for y in it) for x in a)


def oracle_c04(stream):
    """C04 evaluated on the implementation."""
    import mido
    from props.c02 import valid_msg
    try:
        ms = mido.parser.parse_all(list(stream))
    except Exception as e:  # noqa: BLE001
        return ('raises:' + type(e).__name__, 'parse_all(%r) raised %r' % (stream, e))
    for m in ms:
        if not valid_msg(m):
            return ('invalid-message', 'parse_all(%r) yielded invalid %r' % (stream, m))
    rt_in = [b for b in stream if b in RT_DEFINED]
    rt_out = [m.bytes()[0] for m in ms if m.bytes()[0] >= 0xf8]
    if rt_in != rt_out:
        return ('realtime', 'parse_all(%r): real-time bytes %r in, %r out' % (stream, rt_in, rt_out))
    other = [b for m in ms if m.bytes()[0] < 0xf8 for b in m.bytes()]
    if not is_subseq(other, [b for b in stream if b < 0xf8]):
        return ('subsequence', 'parse_all(%r): message bytes %r are not a subsequence of the input' % (stream, other))
    # the same messages whichever way the parser is read: get_message() until None, a loop that is left early and resumed, byte-wise feeding
    want = msgs_out(ms)
    try:
        # the stream given as a one-shot iterator / generator (Parser.feed documents any iterable)
        if msgs_out(mido.parser.parse_all(iter(list(stream)))) != want or msgs_out(mido.parser.parse_all(b for b in list(stream))) != want:
            return ('route:one-shot-iterable', 'parse_all of an iterator / generator over %r differs from parse_all of the list' % (stream[:60],))
        # what the parser hands out belongs to the caller: changing those messages must not change what the same bytes parse to next time
        for m in ms:
            m.time = 12345
            for a in ('note', 'control', 'program', 'pos', 'song', 'frame_value'):
                if a in vars(m):
                    setattr(m, a, (getattr(m, a) + 1) % 8)
            if m.type == 'sysex':
                m.data = (9,)
        again = mido.parser.parse_all(list(stream))
        if msgs_out(again) != want or any(x.time != 0 for x in again) or {id(x) for x in again} & {id(x) for x in ms}:
            return ('aliasing', 'after the messages parsed from %r were modified by their consumer, parsing the same bytes again gives %r' % (stream[:40], again[:4]))
        p = mido.Parser()
        p.feed(list(stream))
        got = []
        while True:
            m = p.get_message()
            if m is None:
                break
            got.append(m)
        if msgs_out(got) != want:
            return ('route:get_message', 'feed + get_message() gave %d messages, parse_all %d, for %r' % (len(got), len(ms), stream[:60]))
        p = mido.Parser()
        p.feed(list(stream))
        got = []
        for m in p:
            got.append(m)
            break
        got += list(p)
        if msgs_out(got) != want:
            return ('route:resumed-loop', 'a loop left after one message and resumed gave %d messages, parse_all %d, for %r' % (len(got), len(ms), stream[:60]))
        # a parser's messages are those of the bytes fed to IT: another parser alive at the same time, fed other bytes in between
        # (two input ports), changes nothing
        pa, pb = mido.Parser(), mido.Parser()
        other = [0xf0, 5] + list(reversed(stream)) + [0x93, 7]
        got, k, j = [], 0, 0
        while k < len(stream):
            step = 1 + (k * 7 + len(stream)) % 3
            pa.feed(list(stream[k:k + step])); k += step
            pb.feed(other[j:j + 2]); j += 2
            if k % 2:
                got += list(pa)
                list(pb)
        got += list(pa)
        if msgs_out(got) != want:
            return ('route:two-parsers', 'a parser fed %r in pieces, while another parser was fed other bytes in between, gave %r; alone it gives %r' % (stream[:60], msgs_out(got), want))
        if len(stream) <= 64:
            p = mido.Parser()
            got = []
            for b in stream:
                p.feed_byte(b)
                m = p.get_message()
                if m is not None:
                    got.append(m)
            got += list(p)
            if msgs_out(got) != want:
                return ('route:feed_byte', 'feed_byte + get_message gave %r, parse_all %r' % (msgs_out(got), want))
    except Exception as e:  # noqa: BLE001
        return ('raises:' + type(e).__name__, 'reading the parser for %r raised %r' % (stream[:60], e))
    return None


def impl_parse(case):
    import mido
    try:
        ms = mido.parser.parse_all(list(case))
        out = [0] + msgs_out(ms)
        tag = 'msgs=%d' % min(len(ms), 5)
    except Exception as e:  # noqa: BLE001
        out = [-1, core.exn_code(e)]
        tag = 'raise'
    return out, oracle_c04(case), tag


def impl_tokens(case):
    import mido.tokenizer
    try:
        toks = list(mido.tokenizer.Tokenizer(list(case)))
        out = [len(toks)]
        for t in toks:
            out += [len(t)] + list(t)
    except Exception as e:  # noqa: BLE001
        out = [-1, core.exn_code(e)]
    return out, None, 'tokens'


# ---- operation histories on a Parser ----------------------------------------------------------------
def decode_pops(case):
    ops, i = [], 0
    while i < len(case):
        k = case[i]
        if k == 0:
            n = case[i + 1]
            ops.append(('feed', case[i + 2:i + 2 + n]))
            i += 2 + n
        elif k == 1:
            ops.append(('feed_byte', case[i + 1]))
            i += 2
        elif k == 2:
            ops.append(('get',)); i += 1
        elif k == 3:
            ops.append(('pending',)); i += 1
        elif k == 4:
            ops.append(('iterall',)); i += 1
        elif k == 5:
            ops.append(('itertake', case[i + 1])); i += 2
        else:
            raise ValueError(case)
    return ops


def impl_pops(case):
    """Runs the history on a real Parser; oracle: FIFO conservation, pending and get_message contracts."""
    import mido
    ops = decode_pops(case)
    p = mido.Parser()
    out = []
    fed, got = [], []
    fail = None
    try:
        for op in ops:
            if op[0] == 'feed':
                form = (len(fed) + len(op[1])) % 6            # list / bytes / bytearray / tuple / one-shot iterator / generator
                data = (list(op[1]), bytes(op[1]), bytearray(op[1]), tuple(op[1]), iter(list(op[1])), (b for b in list(op[1])))[form]
                p.feed(data); fed += op[1]; out += [0]
            elif op[0] == 'feed_byte':
                p.feed_byte(op[1]); fed.append(op[1]); out += [0]
            elif op[0] == 'get':
                before = p.pending()
                m = p.get_message()
                if m is None:
                    out += [1, 0]
                    if before != 0 and fail is None:
                        fail = ('get-none', 'get_message() returned None with pending() == %d in %r' % (before, ops))
                else:
                    out += [1, 1] + canon.msg_ints(m); got.append(m)
                    if before == 0 and fail is None:
                        fail = ('get-some', 'get_message() returned a message with pending() == 0 in %r' % (ops,))
            elif op[0] == 'pending':
                n = p.pending()
                out += [2, n]
                still = len(list(copy.deepcopy(p)))
                if (n != still or len(p) != n) and fail is None:
                    fail = ('pending', 'pending() == %d but %d messages can be retrieved, in %r' % (n, still, ops))
            elif op[0] == 'iterall':
                ms = list(p); out += [3] + msgs_out(ms); got += ms
            elif op[0] == 'itertake':
                ms = list(itertools.islice(iter(p), op[1])); out += [3] + msgs_out(ms); got += ms
        rest = list(copy.deepcopy(p))
        out += [-9] + msgs_out(rest)
        if fail is None:
            want = mido.parser.parse_all(fed)
            have = got + rest
            if msgs_out(want) != msgs_out(have):
                fail = ('fifo', 'history %r: retrieved+pending = %r but parse_all of the fed bytes = %r' % (ops, have, want))
    except Exception as e:  # noqa: BLE001
        out = [-1, core.exn_code(e)]
        fail = ('raises:' + type(e).__name__, 'history %r raised %r' % (ops, e))
    return out, fail, 'ops=%d' % min(len(ops) // 4 * 4, 20)


def random_pops(rng, stream=None):
    stream = list(stream if stream is not None else random_stream(rng, 60))
    case = []
    i = 0
    while i < len(stream) or rng.random() < 0.3:
        r = rng.random()
        if i < len(stream) and r < 0.35:
            n = rng.randrange(0, 7)
            chunk = stream[i:i + n]; i += n
            case += [0, len(chunk)] + chunk
        elif i < len(stream) and r < 0.6:
            case += [1, stream[i]]; i += 1
        elif r < 0.72:
            case += [2]
        elif r < 0.86:
            case += [3]
        elif r < 0.93:
            case += [4]
        else:
            case += [5, rng.randrange(0, 4)]
    return case


def impl_iops(case):
    """histories with live iterators kept across other calls: 6 = a new iterator iter(parser), 7 = next() on the newest one (None when it
    stops), 8 k = next() on the k-th one created"""
    import mido
    p = mido.Parser()
    out, fed, got, fail, its = [], [], [], None, []
    i = 0
    try:
        while i < len(case):
            k = case[i]
            if k == 0:
                n = case[i + 1]; chunk = case[i + 2:i + 2 + n]; i += 2 + n
                p.feed(chunk); fed += chunk; out += [0]
            elif k == 1:
                p.feed_byte(case[i + 1]); fed.append(case[i + 1]); i += 2; out += [0]
            elif k == 2:
                m = p.get_message(); i += 1
                out += [1, 0] if m is None else [1, 1] + canon.msg_ints(m)
                got += [m] if m is not None else []
            elif k == 3:
                out += [2, p.pending()]; i += 1
            elif k == 4:
                ms = list(p); out += [3] + msgs_out(ms); got += ms; i += 1
            elif k == 5:
                ms = list(itertools.islice(iter(p), case[i + 1])); out += [3] + msgs_out(ms); got += ms; i += 2
            elif k == 6:
                its.append(iter(p)); out += [0]; i += 1
            else:
                if k == 7:
                    it = its[-1] if its else None
                    i += 1
                else:
                    it = its[case[i + 1]] if case[i + 1] < len(its) else None
                    i += 2
                if it is None:
                    out += [1, 0]
                else:
                    try:
                        m = next(it)
                        out += [1, 1] + canon.msg_ints(m); got.append(m)
                    except StopIteration:
                        out += [1, 0]
        rest = list(copy.deepcopy(p))
        out += [-9] + msgs_out(rest)
        if fail is None:
            want = mido.parser.parse_all(fed)
            if msgs_out(want) != msgs_out(got + rest):
                fail = ('fifo', 'history %r with live iterators: retrieved+pending = %r but parse_all of the fed bytes = %r' % (case, got + rest, want))
    except Exception as e:  # noqa: BLE001
        out = [-1, core.exn_code(e)]
        fail = ('raises:' + type(e).__name__, 'history %r with live iterators raised %r' % (case, e))
    return out, fail, 'iops'


def random_iops(rng):
    stream = random_stream(rng, 40)
    case, i, nit = [], 0, 0
    while i < len(stream) or rng.random() < 0.4:
        r = rng.random()
        if i < len(stream) and r < 0.3:
            n = rng.randrange(0, 7)
            chunk = stream[i:i + n]; i += n
            case += [0, len(chunk)] + chunk
        elif i < len(stream) and r < 0.45:
            case += [1, stream[i]]; i += 1
        elif r < 0.52:
            case += [2]
        elif r < 0.58:
            case += [3]
        elif r < 0.62:
            case += [4]
        elif r < 0.66:
            case += [5, rng.randrange(0, 3)]
        elif r < 0.74:
            case += [6]; nit += 1
        elif r < 0.87:
            case += [7]
        else:
            case += [8, rng.randrange(0, nit + 1)]      # any iterator created so far (or one that does not exist yet: no effect)
    return case


# ---- ParserQueue ---------------------------------------------------------------------------------------
def impl_qops(case):
    import mido
    from mido.backends._parser_queue import ParserQueue
    q = ParserQueue()
    ref = mido.Parser()             # the statement: the queue hands out what a parser fed the same bytes hands out, with the put() messages in their places
    out, got, want = [], [], []
    i = 0
    fail = None
    try:
        while i < len(case):
            k = case[i]
            if k == 0:
                n = case[i + 1]
                chunk = case[i + 2:i + 2 + n]
                q.put_bytes(chunk); i += 2 + n; out += [0]
                ref.feed(chunk); want += [canon.msg_ints(m) for m in ref]
            elif k == 1:
                name, kw, rest = canon.kwargs_of(case[i + 1:])
                m = mido.Message(name, **kw)
                q.put(m); i = len(case) - len(rest); out += [0]
                want.append(canon.msg_ints(m))
            elif k == 2:
                m = q.poll(); i += 1
                out += [1, 0] if m is None else [1, 1] + canon.msg_ints(m)
                if m is not None:
                    got.append(canon.msg_ints(m))
                elif len(got) < len(want):
                    fail = fail or ('pqueue-none', 'ParserQueue history %r: poll() returned None while %d message(s) were due' % (case, len(want) - len(got)))
            elif k == 3:
                ms = list(q.iterpoll()); i += 1
                out += [3] + msgs_out(ms)
                got += [canon.msg_ints(m) for m in ms]
        rest_ = list(q.iterpoll())
        out += [-9] + msgs_out(rest_)
        got += [canon.msg_ints(m) for m in rest_]
        if fail is None and got != want:
            fail = ('pqueue-chunking', 'ParserQueue history %r handed out %r; a parser fed the same bytes (with the put() messages in place) gives %r' % (case, got, want))
    except Exception as e:  # noqa: BLE001
        out = [-1, core.exn_code(e)]
        fail = ('pqueue-raises:' + type(e).__name__, 'ParserQueue history %r raised %r' % (case, e))
    return out, fail, 'pqueue'


def random_qops(rng):
    stream = random_stream(rng, 50)
    case, i = [], 0
    while i < len(stream) or rng.random() < 0.3:
        r = rng.random()
        if i < len(stream) and r < 0.5:
            n = rng.randrange(0, 7)
            chunk = stream[i:i + n]; i += n
            case += [0, len(chunk)] + chunk
        elif r < 0.56:
            case += [0, 1, rng.choice([0xf8, 0xf8, 0xfa, 0xfe, 0xff, 0xf9, 0xfd, 0xf6, 0xf7])]     # a lone real-time (or other one-byte) chunk, wherever the stream stands
        elif r < 0.62:
            case += [1] + canon.random_message(rng, sysex_max=5)
        elif r < 0.85:
            case += [2]
        else:
            case += [3]
    return case


def chunk_jobs(cases, tag, comp, n=None):
    n = n or core.NPROC
    step = max(1, (len(cases) + n - 1) // n)
    return [(tag, comp, cases[i:i + step]) for i in range(0, len(cases), step)]


IMPLS = {'parse': impl_parse, 'tokens': impl_tokens, 'pops': impl_pops, 'qops': impl_qops, 'iops': impl_iops}


def job(j):
    tag, comp, cases = j
    return tag, core.eval_cases(comp, cases, IMPLS[tag], repeat=100, fresh=True)
