"""C10, last sentence — what is received is a copy: histories of creating, editing, sending, receiving and editing again, on every port
kind, against the heap model Model/SendCopy.v (component 122) and against the statement."""
import random

import canon
import core

COMP_COPY = 122


def mk(v):
    """a message object whose value is v: a channel message, a realtime message (time is all it has) or a sysex message, by v % 4"""
    import mido
    if v % 4 == 0:
        return mido.Message('clock', time=v)
    if v % 4 == 1:
        return mido.Message('sysex', data=[v % 128, (v // 128) % 128], time=v)
    return mido.Message('note_on', note=v % 128, velocity=(v // 128) % 128, time=v)


def edit(m, v):
    if m.type == 'note_on':
        m.note = v % 128
        m.velocity = (v // 128) % 128
    elif m.type == 'sysex':
        m.data = [v % 128, (v // 128) % 128]
    m.time = v


def value(m):
    """the object's value; -1 when its parts no longer belong together"""
    if m.type == 'note_on' and (m.note != m.time % 128 or m.velocity != (m.time // 128) % 128):
        return -1
    if m.type == 'sysex' and tuple(m.data) != (m.time % 128, (m.time // 128) % 128):
        return -1
    return m.time


def world(kind, n):
    """(send(obj), recv(i) -> object or None)"""
    import mido.ports as P
    if kind == 'echo':
        p = P.EchoPort()
        return p.send, lambda i: p.receive(block=False)
    if kind == 'echo-poll':
        p = P.EchoPort()
        return p.send, lambda i: p.poll()
    if kind == 'echo-iter':
        p = P.EchoPort()
        return p.send, lambda i: next(iter(p.iter_pending()), None)
    if kind == 'ioport':
        e = P.EchoPort()
        p = P.IOPort(e, e)
        return p.send, lambda i: p.receive(block=False)
    if kind == 'ioport-pair':
        # an input and an output port joined by a cable that hands the object over as it is (what a backend callback does)
        inp = P.BaseInput()

        class Out(P.BaseOutput):
            def _send(self, msg):
                inp._messages.append(msg)
        p = P.IOPort(inp, Out())
        return p.send, lambda i: p.poll()
    if kind == 'multi-in':
        sub = P.EchoPort()
        mp = P.MultiPort([sub])
        return sub.send, lambda i: mp.receive(block=False)
    if kind == 'multi-in-ports':
        sub = P.EchoPort()
        mp = P.MultiPort([sub], yield_ports=True)

        def recv(i):
            r = mp.receive(block=False)
            return None if r is None else r[1]
        return sub.send, recv
    if kind == 'multi':
        subs = [P.EchoPort() for _ in range(n)]
        mp = P.MultiPort(subs)
        return mp.send, lambda i: subs[i].receive(block=False) if i < n else None
    raise ValueError(kind)


def kinds_for(n):
    return ['multi'] if n != 1 else ['echo', 'echo-poll', 'echo-iter', 'ioport', 'ioport-pair', 'multi-in', 'multi-in-ports', 'multi']


def run_ops(kind, n, ops):
    send, recv = world(kind, n)
    mine, got = [], []
    sent_vals = [[] for _ in range(n)]      # per queue, the value each sent object had when it was sent
    taken = [0] * n
    expect = []                              # per received object: its value at send time, or its receiver's last edit
    fail = None
    i = 0
    while i < len(ops):
        k = ops[i]
        if k == 0:
            mine.append(mk(ops[i + 1])); i += 2
        elif k == 1:
            if ops[i + 1] < len(mine):
                edit(mine[ops[i + 1]], ops[i + 2])
            i += 3
        elif k == 2:
            if ops[i + 1] < len(mine):
                v = value(mine[ops[i + 1]])
                send(mine[ops[i + 1]])
                for q in sent_vals:
                    q.append(v)
            i += 2
        elif k == 3:
            q = ops[i + 1]
            m = recv(q) if q < n else None
            if m is not None:
                got.append(m)
                expect.append(sent_vals[q][taken[q]] if taken[q] < len(sent_vals[q]) else None)
                taken[q] += 1
            i += 2
        else:
            if ops[i + 1] < len(got):
                edit(got[ops[i + 1]], ops[i + 2])
                expect[ops[i + 1]] = ops[i + 2]
            i += 3
    gv, mv = [value(m) for m in got], [value(m) for m in mine]
    aliased = any(g is m for g in got for m in mine)
    if gv != expect:
        fail = ('received-not-a-copy', 'on a %s port the received objects hold %r; their values when sent (or their receiver\'s last edit) are %r' % (kind, gv, expect))
    elif aliased:
        fail = ('received-is-sent-object', 'on a %s port a received object IS the object that was sent' % kind)
    elif len({id(g) for g in got}) != len(got):
        fail = ('received-twice', 'on a %s port two receives returned the same object' % kind)
    return canon.out_list(gv) + canon.out_list(mv) + [1 if aliased else 0], fail


def impl_copy(case):
    n, ops = case[1], case[2:]
    outs, fail = [], None
    for kind in kinds_for(n):
        try:
            o, f = run_ops(kind, n, ops)
        except Exception as e:  # noqa: BLE001
            o, f = [-1, core.exn_code(e)], ('raises:' + type(e).__name__, 'history %r on a %s port raised %r' % (ops[:40], kind, e))
        outs.append(o)
        fail = fail or f
    if fail is None and any(o != outs[0] for o in outs):
        fail = ('kinds-differ', 'history %r gives different values on different port kinds: %r' % (ops[:40], outs[:4]))
    # report the first output that differs from the majority, so that a deviating kind shows up against the model as well
    pick = next((o for o in outs if o != outs[0]), outs[0])
    return pick, fail, 'queues=%d' % n


def random_case(rng):
    n = rng.choice([1, 1, 1, 2, 3])
    ops, nm, ng = [], 0, 0
    for _ in range(rng.randrange(1, 16)):
        r = rng.random()
        v = rng.randrange(16384)
        if r < 0.2 or nm == 0:
            ops += [0, v]; nm += 1
        elif r < 0.4:
            ops += [1, rng.randrange(nm + (1 if rng.random() < 0.05 else 0)), v]
        elif r < 0.65:
            ops += [2, rng.randrange(nm)]
        elif r < 0.85:
            ops += [3, rng.randrange(n + (1 if rng.random() < 0.05 else 0))]; ng += 1
        else:
            ops += [4, rng.randrange(ng + 1), v]
    return [1, n] + ops


def job(j):
    tag, cases = j
    return tag, core.eval_cases(COMP_COPY, cases, impl_copy)


def run(out, rng):
    ncases = 600 if out.tier == 'quick' else 30000
    cases = [[1, 1, 0, 5, 2, 0, 1, 0, 6, 3, 0],                                   # new, send, edit the sent object, receive
             [1, 2, 0, 5, 2, 0, 3, 0, 3, 1, 4, 0, 9, 1, 0, 7, 2, 0, 3, 1],        # fan-out, the receivers edit, the caller edits and sends again
             [1, 1, 0, 1, 2, 0, 2, 0, 3, 0, 4, 0, 3, 3, 0]]                       # the same object sent twice; the first copy edited by its receiver
    cases += [random_case(rng) for _ in range(ncases)]
    chunks = [cases[i::core.NPROC] for i in range(core.NPROC)]
    for tag, rec in core.pmap(job, [('copy', c) for c in chunks if c]):
        core.merge_into(out, rec, 'send copies (objects and aliasing), all port kinds')
    core.kernel_crosscheck(out, [(COMP_COPY, c) for c in cases[:60]], 'C10')
    return len(cases)
