"""C07 — MIDI file save then load preserves every track."""
import random

import core
from props import smf_common as sc

THEOREMS_DEPEND_ON = ['Gen/AgreeCodec.v', 'Gen/AgreeMeta.v']
FILES = {}      # case tuple -> (file dict, label)


def impl_save(case):
    f, label = FILES[tuple(case)]
    cs = case[0]
    out, bs, exc = sc.run_save(f, cs)
    fail = None
    if label == 'storable':
        if bs is None:
            fail = ('save-refused', 'save raised %r for storable content %r' % (exc, brief(f)))
        else:
            lo, mf, e2 = sc.run_load(bs, cs)
            want = [0, f['type'], f['tpb'], len(f['tracks'])]
            for tr in f['tracks']:
                nt = sc.normalise_track(tr)
                want.append(len(nt))
                for tv, ev in nt:
                    want += list(tv) + list(ev)
            if lo != want:
                fail = ('roundtrip', 'save then load of %r gave %r' % (brief(f), e2 if mf is None else brief_ints(lo)))
            else:
                # what save writes has no data byte above 127, so the reader's options (clamp such bytes; print what is read) change nothing
                for clip, debug in ((True, False), (False, True), (True, True)):
                    lo2, mf2, e3 = sc.run_load(bs, cs, clip=clip, debug=debug)
                    if lo2 != want:
                        fail = ('roundtrip-options', 'save then load(clip=%r, debug=%r) of %r gave %r' % (clip, debug, brief(f), e3 if mf2 is None else brief_ints(lo2)))
                        break
    elif label in ('realtime', 'negative', 'float', 'type0'):
        # the property is read on the track as it is written: end_of_track deltas are folded into the next message first
        # (DESIGN.md section 6, readings), so a negative or float delta that the folding absorbs is not 'unstorable'
        if label in ('negative', 'float') and not still_unstorable(f):
            pass
        elif not isinstance(exc, ValueError):
            fail = ('unstorable-accepted:' + label, 'save of unstorable content (%s) %s: %r' % (label, 'raised %r' % exc if exc else 'succeeded', brief(f)))
    return out, fail, 'save:' + label


def still_unstorable(f):
    for tr in f['tracks']:
        acc = 0
        for tv, ev in tr:
            t = sc.tval_py(tv)
            if sc.ev_is_eot(ev):
                acc += t
            else:
                d = acc + t if acc else t
                if not isinstance(d, int) or d < 0:
                    return True
                acc = 0
        if not isinstance(acc, int) or acc < 0:
            return True
    return False


def brief(f):
    s = repr(f)
    return s if len(s) < 600 else s[:600] + '...'


def brief_ints(x):
    return x if len(x) < 200 else x[:200] + ['...']


def impl_load(case):
    cs, clip, bs = case[0], case[1], case[2:]
    out, mf, exc = sc.run_load(bs, cs, bool(clip))
    fail = None
    if mf is not None:
        # fixed point of load-save-load
        import io
        try:
            buf = io.BytesIO()
            mf.save(file=buf)
            bs2 = buf.getvalue()
        except ValueError:
            bs2 = None
        except Exception as e:  # noqa: BLE001
            bs2 = None
            if not (type(e).__name__ == 'error'):      # struct.error cannot occur for loaded header values
                fail = ('fixpoint-save-raises:' + type(e).__name__, 'bytes %r load, but saving the result raised %r' % (bytes(bs)[:80], e))
            else:
                fail = ('fixpoint-save-raises:struct', 'bytes %r load, but saving raised %r' % (bytes(bs)[:80], e))
        if bs2 is not None:
            lo2, mf2, e2 = sc.run_load(bs2, cs)
            if mf2 is None:
                n = max([len(getattr(m, 'data', ())) for t in mf.tracks for m in t] + [0])
                key = 'sysex-at-limit' if n >= 1000000 else 'fixpoint-reload'
                fail = (key, 'bytes %r load and save, but the saved bytes do not load: %r' % (bytes(bs)[:80], e2))
            else:
                want = [mf.type, mf.ticks_per_beat, len(mf.tracks)]
                ints1 = sc.file_ints(mf)
                # normalise the first load with the harness's own fix_end_of_track
                tracks, i = [], 3
                for _ in range(ints1[2]):
                    n = ints1[i]; i += 1
                    tr = []
                    for _ in range(n):
                        tv = (ints1[i], ints1[i + 1]); i += 2
                        j = i + ev_len(ints1, i)
                        tr.append((tv, ints1[i:j])); i = j
                    tracks.append(tr)
                for tr in tracks:
                    nt = sc.normalise_track(tr)
                    want.append(len(nt))
                    for tv, ev in nt:
                        want += list(tv) + list(ev)
                if lo2[1:] != want:
                    fail = ('fixpoint', 'bytes %r: load-save-load differs from the first load (normalised)' % (bytes(bs)[:80],))
    return out, fail, 'load:%s' % ('ok' if mf is not None else 'error')


def ev_len(ints, i):
    if ints[i] == 0:
        k = ints[i + 1]
        if k == 7:
            return 3 + ints[i + 2]
        import canon
        return 2 + len(canon.KINDS[k][1])
    return 1 + sc.meta_len(ints[i + 1:])


def job(j):
    tag, comp, cases = j
    return tag, core.eval_cases(comp, cases, impl_save if tag == 'save' else impl_load, repeat=40)


def mutate(rng, bs):
    bs = list(bs)
    r = rng.random()
    if not bs:
        return bs
    if r < 0.35:
        i = rng.randrange(len(bs)); bs[i] = rng.choice([0, 0x7f, 0x80, 0xff, 0xf0, 0xf7, 0x2f, bs[i] ^ (1 << rng.randrange(8)), rng.randrange(256)])
    elif r < 0.5:
        del bs[rng.randrange(len(bs))]
    elif r < 0.65:
        bs.insert(rng.randrange(len(bs) + 1), rng.choice([0, 0x80, 0x81, 0xff, 0x90, 0xf8, rng.randrange(256)]))
    elif r < 0.8:
        bs = bs[:rng.randrange(len(bs))]
    elif r < 0.9 and len(bs) > 14:
        # longer header chunk with extra bytes
        k = rng.randrange(1, 7)
        bs = bs[:7] + [6 + k] + bs[8:14] + [rng.randrange(256) for _ in range(k)] + bs[14:]
    else:
        bs = bs + [rng.randrange(256) for _ in range(rng.randrange(1, 5))]
    return bs


def corpus():
    """inputs behind fixed defects and known findings"""
    res = []
    unk = {'type': 1, 'tpb': 480, 'tracks': [[((0, 77), [1, 10, 0x60, 2, 1, 2]), ((0, 3), [0, 0, 1, 2, 3])]]}
    res.append((unk, 'storable'))
    for k in (17, 16, 12):
        res.append(({'type': 1, 'tpb': 96, 'tracks': [[((0, 1), [0, 1, 0, 60, 64]), ((0, 2), [0, k])]]}, 'realtime'))
    res.append(({'type': 1, 'tpb': 96, 'tracks': [[((0, 1), [0, 11]), ((0, 2), [0, 8, 3, 9]), ((0, 0), [0, 9, 16383]), ((0, 0), [0, 10, 5])]]}, 'storable'))
    res.append(({'type': 1, 'tpb': 96, 'tracks': [[((0, 1), [1, 7, 3, 2 ** 29, 24, 8]), ((0, 1), [1, 7, 3, 2 ** 255, 24, 8])]]}, 'storable'))
    return res


def other_charsets(out, rng):
    """save then load under charsets the model keeps abstract (implementation against the statement): the same texts come back"""
    import io
    import mido
    texts = ['abc', 'Gr\u00f6\u00dfe', '\u00e9t\u00e9 \u20ac', '\u65e5\u672c\u8a9e', 'A\u0100B', '']
    n = 0
    for cs in ('utf-8', 'utf-16-le', 'utf-16', 'cp1252', 'shift_jis', 'latin1', 'cp437', 'utf-32'):
        for _ in range(3):
            ts = [t for t in rng.sample(texts, 3)]
            try:
                for t in ts:
                    t.encode(cs)
            except UnicodeEncodeError:
                continue
            n += 1
            tr = mido.MidiTrack([mido.MetaMessage('track_name', name=ts[0], time=1), mido.Message('note_on', note=1, time=2),
                                 mido.MetaMessage('text', text=ts[1], time=3), mido.MetaMessage('lyrics', text=ts[2], time=0)])
            mf = mido.MidiFile(type=1, charset=cs)
            mf.tracks.append(tr)
            try:
                buf = io.BytesIO()
                mf.save(file=buf)
                back = mido.MidiFile(file=io.BytesIO(buf.getvalue()), charset=cs)
                got = [(m.time, getattr(m, 'text', getattr(m, 'name', None))) for m in back.tracks[0] if m.is_meta and m.type != 'end_of_track']
                want = [(1, ts[0]), (3, ts[1]), (0, ts[2])]
                if got != want:
                    out.failures.append(('charset-roundtrip', 'saved and loaded with charset %s: texts %r came back as %r' % (cs, want, got), {'component': 'charsets', 'charset': cs, 'texts': ts}))
            except Exception as e:  # noqa: BLE001
                out.failures.append(('charset-roundtrip', 'saving / loading texts %r with charset %s raised %r' % (ts, cs, e), {'component': 'charsets', 'charset': cs, 'texts': ts}))
    out.evaluations += n
    out.components['other charsets (implementation against the statement)'] = {'cases': n}


def limit_case(out):
    """the reader's length limit (implementation only: the inputs are a megabyte each): a sysex event of exactly MAX_MESSAGE_LENGTH bytes
    without the closing F7 loads, but its saved form is one byte longer and no longer loads - the load-save-load clause fails there"""
    import io
    import mido
    from mido.midifiles.meta import encode_variable_int
    from mido.midifiles.midifiles import MAX_MESSAGE_LENGTH

    def mk(n, with_f7):
        data = bytes([1]) * n + (b'\xf7' if with_f7 else b'')
        ev = bytes([0, 0xF0]) + bytes(encode_variable_int(len(data))) + data + bytes([0, 0xFF, 0x2F, 0])
        trk = b'MTrk' + len(ev).to_bytes(4, 'big') + ev
        return b'MThd' + (6).to_bytes(4, 'big') + (1).to_bytes(2, 'big') + (1).to_bytes(2, 'big') + (480).to_bytes(2, 'big') + trk
    n = 0
    for size, f7 in ((MAX_MESSAGE_LENGTH, False), (MAX_MESSAGE_LENGTH - 1, True), (MAX_MESSAGE_LENGTH - 1, False)):
        n += 1
        try:
            mf = mido.MidiFile(file=io.BytesIO(mk(size, f7)))
        except Exception:  # noqa: BLE001
            continue                                            # a string that does not load is outside the clause
        try:
            buf = io.BytesIO()
            mf.save(file=buf)
        except ValueError:
            continue
        try:
            mf2 = mido.MidiFile(file=io.BytesIO(buf.getvalue()))
            ok = [list(m.data) if m.type == 'sysex' else m.type for m in mf2.tracks[0]] == [list(m.data) if m.type == 'sysex' else m.type for m in mf.tracks[0]]
            if not ok:
                out.failures.append(('fixpoint', 'a sysex event of %d bytes (closing F7: %r) changes through load-save-load' % (size, f7), {'component': 'limit', 'size': size, 'f7': f7}))
        except Exception as e:  # noqa: BLE001
            out.failures.append(('sysex-at-limit', 'a track holding a sysex event of %d bytes without the closing F7 loads and saves, but the saved bytes do not load: %r'
                                 % (size, e), {'component': 'limit', 'size': size, 'f7': f7}))
    out.evaluations += n
    out.components['sysex at the reader limit (implementation only)'] = {'cases': n}


def run(out):
    rng = random.Random(out.seed)
    nfiles = 1500 if out.tier == 'quick' else 20000
    save_cases, saved = [], []
    gen = corpus()
    for i in range(nfiles):
        cs = 0 if i % 5 else 1
        f = sc.random_file(rng, cs)
        if i % 4 == 3:
            g, label = sc.make_unstorable(rng, f)
            gen.append((g, label, cs))
        else:
            gen.append((f, 'storable', cs))
    for item in gen:
        f, label = item[0], item[1]
        cs = item[2] if len(item) > 2 else 0
        c = [cs] + sc.file_case(f)
        FILES[tuple(c)] = (f, label)
        save_cases.append(c)
    # bytes to load: the saved storable files and mutations of them
    load_cases = []
    nmut = 2 if out.tier == 'quick' else 3
    for c in save_cases:
        f, label = FILES[tuple(c)]
        if label != 'storable':
            continue
        _, bs, _ = sc.run_save(f, c[0])
        if bs is None or len(bs) > 4000:
            continue
        load_cases.append([c[0], 0] + list(bs))
        for _ in range(nmut):
            m = mutate(rng, bs)
            load_cases.append([c[0], rng.choice([0, 0, 1])] + m)
    load_cases += [[0, 0], [0, 0] + list(b'MThd'), [0, 0] + list(b'MThd\0\0\0\6\0\1\0\0\1\xe0'), [0, 0] + list(b'MThd\0\0\0\6\0\1\0\1\1\xe0MTrk\0\0\0\0'),
                   [0, 0] + list(b'MThd\0\0\0\6\0\1\0\1\1\xe0MTrk\0\0\0\4\0\xf8\0\xf6'), [0, 0] + list(b'MThd\0\0\0\6\0\1\0\1\1\xe0MTrk\0\0\0\3\0\x90\x40'),
                   [0, 0] + list(b'MThd\0\0\0\6\0\0\xff\xff\1\xe0'), [0, 0] + list(b'RIFF\0\0\0\6\0\1\0\1\1\xe0')]
    jobs = [('save', COMP_S, c) for _, COMP_S, c in __import__('props.parser_common', fromlist=['x']).chunk_jobs(save_cases, 'save', sc.COMP_SAVE)]
    jobs += [('load', COMP_L, c) for _, COMP_L, c in __import__('props.parser_common', fromlist=['x']).chunk_jobs(load_cases, 'load', sc.COMP_LOAD)]
    for tag, rec in core.pmap(job, jobs):
        core.merge_into(out, rec, tag)
    limit_case(out)
    other_charsets(out, rng)
    out.rule = ('%d generated files (types 0/1/2, 0-4 tracks, 0-24 events mixing channel runs that trigger and break running status, system '
                'common, sysex of length 0..129, all 17 known meta types at range limits, unknown meta types, end_of_track missing/repeated/'
                'mid-track, deltas at every variable-length-quantity boundary), a quarter of them with one kind of unstorable content; saved bytes '
                'compared byte for byte with the model; %d byte strings (the saved files plus flip/delete/insert/truncate/longer-header/'
                'trailing-bytes mutations, clip on and off) loaded and compared with the model (any failure to load is one outcome), with the '
                'load-save-load fixed point checked on every string that loads. Non-trivial: non-zero content; distinct by encoded case.'
                % (len(save_cases), len(load_cases)))
    out.sample({'component': 'save', 'file': brief(FILES[tuple(save_cases[7])][0])})
    out.sample({'component': 'load', 'bytes': load_cases[5][2:60]})
    small = [c for c in save_cases if len(c) < 400]
    core.kernel_crosscheck(out, [(sc.COMP_SAVE, c) for c in rng.sample(small, 60)] + [(sc.COMP_LOAD, c) for c in rng.sample([c for c in load_cases if len(c) < 400], 60)], 'C07')
    out.assumptions += ['text codecs: latin-1 and ASCII are concrete in the model; the theorems hold for any codec that decodes what it encodes',
                        'header values outside 16 bits raise struct.error (outside the property); chunks of 4 GiB are not exercised',
                        'reading of the exception class of a failed load is not compared (the property does not constrain it)']
