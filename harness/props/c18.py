"""C18 — socket ports deliver exactly the complete messages before a disconnect (real sockets on the loopback interface)."""
import random
import select
import socket
import struct

import canon
import core
from props.parser_common import chunk_jobs

THEOREMS_DEPEND_ON = ['Gen/AgreeCodec.v']
COMP_SOCK, COMP_SERVER, COMP_FMT, COMP_PARSE = 110, 111, 112, 113
FUEL = 6


class Hang(Exception):
    """the call would never return (hang guard on the fake sleep)"""


class HarnessError(Exception):
    pass


_listener = {}


def tcp_pair():
    """(peer end, port end) of a fresh TCP connection on 127.0.0.1"""
    if 'srv' not in _listener:
        srv = socket.socket()
        srv.setsockopt(socket.SOL_SOCKET, socket.SO_REUSEADDR, 1)
        srv.bind(('127.0.0.1', 0))
        srv.listen(8)
        _listener['srv'] = srv
    srv = _listener['srv']
    a = socket.socket()
    a.connect(srv.getsockname())
    b, _ = srv.accept()
    a.setsockopt(socket.IPPROTO_TCP, socket.TCP_NODELAY, 1)
    return a, b


def wait_readable(sock, what):
    r, _, _ = select.select([sock], [], [], 5.0)
    if not r:
        raise HarnessError('the kernel did not deliver %s within 5 s' % what)


class Peer:
    """the remote end of one connection, driven by the event list: one event per _is_readable() call of the port"""

    def __init__(self, sock, evs):
        self.sock, self.evs, self.outstanding, self.open, self.delivered = sock, list(evs), 0, True, []

    def step(self, port_sock):
        """the answer to one _is_readable() call.  While the kernel still holds unread data the answer is yes; otherwise the next
        event happens: a whole segment goes out, nothing arrives for now, the peer closes, or the peer dies."""
        r, _, _ = select.select([port_sock], [], [], 0)
        if r:
            return True
        if not self.evs:
            return False
        e = self.evs.pop(0)
        if e >= 0:
            run = [e]
            while self.evs and self.evs[0] >= 0:
                run.append(self.evs.pop(0))
            self.sock.sendall(bytes(run))
            self.delivered += run
            wait_readable(port_sock, 'a segment')
            return True
        if e == -1:
            return False
        if e == -3:
            self.sock.setsockopt(socket.SOL_SOCKET, socket.SO_LINGER, struct.pack('ii', 1, 0))    # abort: RST
        self.sock.close()
        self.open = False
        wait_readable(port_sock, 'the disconnect')
        return True

    def sees_disconnect(self):
        """True if this (still open) end sees the connection closed by the other end"""
        r, _, _ = select.select([self.sock], [], [], 1.0)
        if not r:
            return False
        try:
            return self.sock.recv(1) == b''
        except OSError:
            return True


def walk_complete(stream):
    """the encodings that lie completely inside a byte stream made of valid encodings cut short (independent of mido's parser)"""
    out, i = [], 0
    need = {0x8: 3, 0x9: 3, 0xa: 3, 0xb: 3, 0xc: 2, 0xd: 2, 0xe: 3}
    sysn = {0xf1: 2, 0xf2: 3, 0xf3: 2, 0xf6: 1, 0xf8: 1, 0xfa: 1, 0xfb: 1, 0xfc: 1, 0xfe: 1, 0xff: 1}
    while i < len(stream):
        st = stream[i]
        if st == 0xf0:
            # real-time bytes may stand inside a sysex message (legal MIDI): each is a message of its own, delivered when it arrives -
            # ahead of the sysex, and also when the sysex is never completed
            data, j, closed = [], i + 1, False
            while j < len(stream):
                b = stream[j]; j += 1
                if b == 0xf7:
                    closed = True
                    break
                if b >= 0xf8:
                    out.append([b])
                else:
                    data.append(b)
            if not closed:
                break
            out.append([0xf0] + data + [0xf7]); i = j
            continue
        n = need.get(st >> 4) or sysn[st]
        if i + n > len(stream):
            break
        out.append(stream[i:i + n]); i += n
    return out


def real_readiness(out):
    """The scheduled runs replace the module's readiness test by the event list.  Here it is left as it is: real loop-back connections,
    the port's own way of asking the kernel whether there is something to read, the peer ending with an orderly close or a reset, the
    bytes before the end in one or several segments.  Iteration must end (within a bounded number of sleeps), the port must be closed
    then, and after an orderly close every complete message that was sent must have been handed out."""
    import time
    import mido.ports as ports
    import mido.sockets as sockets
    msgs = [[0x90, 60, 64], [0xf8], [0xb1, 7, 100], [0xf0, 1, 2, 3, 0xf7]]
    n = 0
    for ending in ('fin', 'rst'):
        for nmsg in (0, 1, 3, 4):
            for tail in ([], [0x90, 61], [0xf0, 9]):
                for split in (False, True):
                    n += 1
                    a, b = tcp_pair()
                    data = [x for m in msgs[:nmsg] for x in m] + tail
                    st = {'n': 0}

                    def nap():
                        st['n'] += 1
                        if st['n'] > 400:
                            raise Hang()
                        time.sleep(0.002)
                    saved = ports.sleep
                    ports.sleep = nap
                    got, problem = [], None
                    try:
                        port = sockets.SocketPort('127.0.0.1', 1, conn=b)
                        if split and len(data) > 1:
                            a.sendall(bytes(data[:len(data) // 2])); time.sleep(0.01); a.sendall(bytes(data[len(data) // 2:]))
                        elif data:
                            a.sendall(bytes(data))
                        if ending == 'rst':
                            if data:
                                # let the port take the bytes in first: what a reset does to unread data is the kernel's business
                                deadline = time.time() + 2.0
                                while time.time() < deadline and len(got) < nmsg:
                                    m = port.poll()
                                    if m is None:
                                        time.sleep(0.002)
                                    else:
                                        got.append(m.bytes())
                            a.setsockopt(socket.SOL_SOCKET, socket.SO_LINGER, struct.pack('ii', 1, 0))
                        a.close()
                        try:
                            for m in port:
                                got.append(m.bytes())
                            if not port.closed:
                                problem = 'iteration ended but the port does not report itself closed'
                        except Hang:
                            problem = 'iteration never ended although the peer had %s' % ('closed the connection' if ending == 'fin' else 'reset the connection')
                        except Exception as e:  # noqa: BLE001
                            problem = 'iteration raised %r' % (e,)
                        # after a reset the kernel may discard what the port had not read yet: only an orderly close promises everything
                        if problem is None and (got != msgs[:nmsg] if ending == 'fin' else got != msgs[:len(got)]):
                            problem = 'the complete messages %r were sent, %r were handed out' % (msgs[:nmsg], got)
                        try:
                            port.close()
                        except Exception:  # noqa: BLE001
                            pass
                    finally:
                        ports.sleep = saved
                        for s_ in (a, b):
                            try:
                                s_.close()
                            except OSError:
                                pass
                    if problem is not None:
                        out.failures.append(('real-readiness', 'real connection, the module\'s own readiness test: peer sent %r and ended with %s: %s' % (data, ending, problem),
                                             {'component': 'real-readiness', 'bytes': data, 'ending': ending, 'split': split}))
    # a port that has sent something and is then closed: the peer receives what was sent and then sees the disconnect
    for how in ('close', 'with', 'send-twice-close'):
        n += 1
        a, b = tcp_pair()
        problem = None
        try:
            import mido
            port = sockets.SocketPort('127.0.0.1', 1, conn=b)
            if how == 'with':
                with port:
                    port.send(mido.Message('note_on', note=5))
            else:
                port.send(mido.Message('note_on', note=5))
                if how == 'send-twice-close':
                    port.send(mido.Message('clock'))
                port.close()
            a.settimeout(2.0)
            got = b''
            try:
                while True:
                    chunk = a.recv(64)
                    if not chunk:
                        break
                    got += chunk
            except (socket.timeout, TimeoutError):
                problem = 'the peer received %r and then no disconnect within 2 s' % (got,)
            want = bytes([0x90, 5, 64]) + (bytes([0xf8]) if how == 'send-twice-close' else b'')
            if problem is None and got != want:
                problem = 'the peer received %r, expected %r' % (got, want)
        except Exception as e:  # noqa: BLE001
            problem = 'raised %r' % (e,)
        finally:
            for s_ in (a, b):
                try:
                    s_.close()
                except OSError:
                    pass
        if problem is not None:
            out.failures.append(('close-after-send', 'a socket port that sent and was then closed (%s): %s' % (how, problem), {'component': 'real-readiness', 'how': how}))
    # a server port polled by one thread while another thread waits in a blocking accept(): the poll must come back
    import threading
    for _ in range(2):
        n += 1
        server = sockets.PortServer('127.0.0.1', 0, backlog=8)
        addr = server._socket.getsockname()
        socks, problem = [], None
        try:
            c1 = socket.socket(); c1.connect(addr); socks.append(c1)
            first = server.accept()
            server.ports.append(first)
            c1.sendall(bytes([0x90, 9, 9]))
            waiter = threading.Thread(target=lambda: _quiet(server.accept), daemon=True)
            waiter.start()
            time.sleep(0.05)                                   # the other thread is now waiting for a client that does not come
            result = []
            poller = threading.Thread(target=lambda: result.append(_poll_some(server, 200)), daemon=True)
            poller.start()
            poller.join(3.0)
            if poller.is_alive():
                problem = 'poll() did not come back within 3 s while another thread waited in accept()'
            elif not result or result[0] is None:
                problem = 'poll() handed out nothing although a client had sent a message'
            c2 = socket.socket(); c2.connect(addr); socks.append(c2)   # lets the waiting accept() go
            waiter.join(2.0)
            poller.join(2.0)
        except Exception as e:  # noqa: BLE001
            problem = 'raised %r' % (e,)
        finally:
            try:
                server.close()
            except Exception:  # noqa: BLE001
                pass
            for c_ in socks:
                try:
                    c_.close()
                except OSError:
                    pass
        if problem is not None:
            out.failures.append(('server-blocked-by-accept', 'a server port with one thread in a blocking accept(): %s' % problem, {'component': 'real-readiness'}))
    # a server port: clients that come and go while it is being polled - each one's messages are handed out, whoever left just before
    for scenario in range(6):
        n += 1
        server = sockets.PortServer('127.0.0.1', 0, backlog=8)
        addr = server._socket.getsockname()
        socks, got, problem = [], [], None

        def connect():
            c = socket.socket()
            c.connect(addr)
            c.setsockopt(socket.IPPROTO_TCP, socket.TCP_NODELAY, 1)
            socks.append(c)
            return c

        def drain(want_count, seconds=3.0):
            deadline = time.time() + seconds
            while time.time() < deadline and len(got) < want_count:
                m = server.poll()
                if m is None:
                    time.sleep(0.002)
                else:
                    got.append(m.bytes())
        try:
            sent = []
            a = connect()
            a.sendall(bytes([0x90, 1, 1])); sent.append([0x90, 1, 1])
            if scenario % 2:
                b2 = connect()
                b2.sendall(bytes([0x91, 2, 2])); sent.append([0x91, 2, 2])
            drain(len(sent))
            a.close()                                    # A leaves ...
            for _ in range(scenario % 3):                # ... the server notices (or not yet) ...
                server.poll(); time.sleep(0.005)
            c = connect()                                # ... and C arrives
            c.sendall(bytes([0x92, 3, 3, 0x92, 4, 4])); sent += [[0x92, 3, 3], [0x92, 4, 4]]
            drain(len(sent))
            if scenario >= 3:
                c.close()
                for _ in range(scenario % 3):
                    server.poll(); time.sleep(0.005)
                d = connect()
                d.sendall(bytes([0x93, 5, 5])); sent.append([0x93, 5, 5])
                drain(len(sent))
            if sorted(got) != sorted(sent):
                problem = 'the clients sent %r, the server handed out %r' % (sent, got)
        except Exception as e:  # noqa: BLE001
            problem = 'raised %r' % (e,)
        finally:
            try:
                server.close()
            except Exception:  # noqa: BLE001
                pass
            for c_ in socks:
                try:
                    c_.close()
                except OSError:
                    pass
        if problem is not None:
            out.failures.append(('server-late-client', 'a server port polled while clients come and go (scenario %d): %s' % (scenario, problem),
                                 {'component': 'real-readiness', 'scenario': scenario}))
    out.evaluations += n
    out.components['unscheduled loop-back connections with the real readiness test (implementation against the statement)'] = {'cases': n}


def _quiet(fn):
    try:
        fn()
    except Exception:  # noqa: BLE001
        pass


def _poll_some(server, rounds):
    import time
    for _ in range(rounds):
        m = server.poll()
        if m is not None:
            return m
        time.sleep(0.002)
    return None


def impl_sock(case, structured=True):
    import mido.ports as ports
    import mido.sockets as sockets
    cf, dd, fuel = case[:3]
    nev = case[3]
    evs, ops = case[4:4 + nev], case[4 + nev:]
    a, b = tcp_pair()
    peer = Peer(a, evs)
    st = {'sleeps': 0, 'n': 0}

    def fake_sleep():
        st['sleeps'] += 1
        st['n'] += 1
        if st['n'] >= fuel:
            raise Hang()

    def sched(sock):
        return peer.step(sock)
    saved = ports.sleep, sockets._is_readable
    ports.sleep, sockets._is_readable = fake_sleep, sched
    out, fail = [], None
    stream = []
    for e in evs:
        if e < 0 and e != -1:
            break
        if e >= 0:
            stream.append(e)
    ended = any(e in (-2, -3) for e in evs)
    try:
        port = sockets.SocketPort('127.0.0.1', 1, conn=b)
        orig_receive = port.receive

        def receive(block=True):
            st['n'] = 0
            return orig_receive(block=block)
        port.receive = receive
        got = []
        for k in _ops(ops):
            try:
                if k[0] == 0:
                    m = port.receive(block=bool(k[1]))
                    res = [1, 0] if m is None else [1, 1] + canon.msg_ints(m)
                    got += [m] if m is not None else []
                elif k[0] == 1:
                    m = port.poll()
                    res = [1, 0] if m is None else [1, 1] + canon.msg_ints(m)
                    got += [m] if m is not None else []
                elif k[0] in (2, 4):
                    ms = []
                    for m in (port if k[0] == 2 else port.iter_pending()):
                        ms.append(m); got.append(m)
                    res = [2, len(ms)] + [x for m in ms for x in canon.msg_ints(m)]
                    if k[0] == 2 and fail is None and not port.closed:
                        fail = ('iteration-ended-open', 'iteration over the socket port ended but the port does not report itself closed')
                else:
                    port.close(); res = [0]
            except Hang:
                res = [3, 13]
                if fail is None and (k[0] in (1, 4) or k == (0, 0)):
                    fail = ('nonblocking-hangs', 'a non-blocking call on the socket port never returned')
                if fail is None and ended and not peer.evs:
                    fail = ('hang-after-disconnect', 'the call never returned although the peer had disconnected')
            except HarnessError:
                raise
            except Exception as e:  # noqa: BLE001
                res = [3, core.exn_code(e)]
                if fail is None and k[0] in (2, 4, 1):
                    fail = ('iteration-raises:' + type(e).__name__, 'operation %r on the socket port raised %r (peer events %r)' % (k, e, evs))
            really_closed = port._socket.fileno() == -1
            if fail is None and port.closed and peer.open and not peer.sees_disconnect():
                fail = ('close-not-seen-by-peer', 'the socket port is closed but its peer does not see a disconnect')
            if fail is None and port.closed and not really_closed:
                fail = ('close-keeps-descriptor', 'the socket port is closed but its descriptor is still open (file objects keep it alive)')
            out += res + [1 if port.closed else 0, 1 if really_closed else 0, st['sleeps'], len(port._messages), -9]
        out += [len(port._messages)] + [x for m in port._messages for x in canon.msg_ints(m)]
        # the property itself, on streams built from whole encodings cut short: exactly the complete ones, in order
        if structured and fail is None:
            want = walk_complete(peer.delivered)
            have = [m.bytes() for m in got] + [m.bytes() for m in port._messages]
            if have != want:
                fail = ('wrong-messages', 'the bytes %r reached the port, carrying the complete messages %r, but it delivered %r' % (peer.delivered, want, have))
        try:
            port.close()
        except Exception:  # noqa: BLE001
            pass
    finally:
        ports.sleep, sockets._is_readable = saved
        for s in (a, b):
            try:
                s.close()
            except OSError:
                pass
    return out, fail, 'structured' if structured else 'raw'


def impl_sock_raw(case):
    return impl_sock(case, structured=False)


def _ops(ops):
    i, out = 0, []
    while i < len(ops):
        if ops[i] == 0:
            out.append((0, ops[i + 1])); i += 2
        else:
            out.append((ops[i],)); i += 1
    return out


def impl_server(case):
    import mido.ports as ports
    import mido.sockets as sockets
    cf, dd, fuel, block, nc = case[:5]
    l = case[5:]
    lists = []

    def take(n, l):
        out = []
        for _ in range(n):
            k = l[0]
            out.append(l[1:1 + k]); l = l[1 + k:]
        return out, l
    clients, l = take(nc, l)
    nw = l[0]
    waiting, l = take(nw, l[1:])
    k = l[0]
    st = {'sleeps': 0, 'n': 0}

    def fake_sleep():
        st['sleeps'] += 1
        st['n'] += 1
        if st['n'] >= fuel:
            raise Hang()
    server = sockets.PortServer('127.0.0.1', 0, backlog=8)
    addr = server._socket.getsockname()
    server._socket.settimeout(0.4)           # hang guard: a blocking accept() that nobody answers ends in TimeoutError instead of for ever
    peers, raw = {}, []
    out, fail = [], None
    real = sockets._is_readable

    def sched(sock):
        if sock is server._socket:
            return real(sock)
        return peers[sock.getpeername()[1]].step(sock)
    saved = ports.sleep, sockets._is_readable, ports.random.shuffle
    try:
        for i, evs in enumerate(clients + waiting):
            s = socket.socket()
            s.connect(addr)
            s.setsockopt(socket.IPPROTO_TCP, socket.TCP_NODELAY, 1)
            raw.append(s)
            peers[s.getsockname()[1]] = Peer(s, evs)
            if i < nc:
                wait_readable(server._socket, 'a connection')
                conn = server.accept()
                server.ports.append(conn)
        if nw:
            wait_readable(server._socket, 'a connection')
        ports.sleep, sockets._is_readable = fake_sleep, sched
        ports.random.shuffle = lambda x: None
        for _ in range(k):
            st['n'] = 0
            try:
                m = server.receive(block=bool(block))
                out += ([1, 0] if m is None else [1, 1] + canon.msg_ints(m)) + [-9]
            except Hang:
                out += [3, 13, -9]
                if fail is None and not block:
                    fail = ('server-nonblocking-hangs', 'PortServer.receive(block=False) never returned')
            except HarnessError:
                raise
            except Exception as e:  # noqa: BLE001
                out += [3, core.exn_code(e), -9]
                if fail is None:
                    fail = ('server-raises:' + type(e).__name__, 'PortServer.receive raised %r' % (e,))
        out += [st['sleeps'], len(server.ports), sum(1 for p in server.ports if p.closed)]
        # the property on the real server: keep polling until every client's events have happened and nothing more comes; then every
        # complete message of every client must have been handed out exactly once, each client's messages in order
        got = []
        i = 0
        while i < len(out) - 3:
            if out[i] == 1 and out[i + 1] == 1:
                j = out.index(-9, i)
                got.append(out[i + 2:j]); i = j + 1
            elif out[i] in (1, 3):
                i = out.index(-9, i) + 1
            else:
                i += 1
        if fail is None and not any(out[i] == 3 for i in range(len(out) - 3) if (i == 0 or out[i - 1] == -9)):
            idle = 0
            for _ in range(200):
                st['n'] = -10 ** 9
                try:
                    m = server.poll()
                except HarnessError:
                    raise
                except Exception as e:  # noqa: BLE001
                    fail = ('server-raises:' + type(e).__name__, 'PortServer.poll raised %r' % (e,))
                    break
                if m is None:
                    idle += 1
                    if idle >= 3 and all(not p.evs for p in peers.values()):
                        break
                else:
                    idle = 0
                    got.append(canon.msg_ints(m))
            import mido
            want_per_client = [] if fail is not None else [[canon.msg_ints(mido.Message.from_bytes(e)) for e in walk_complete(p.delivered)] for p in peers.values()]
            flat = sorted(x for w in want_per_client for x in map(tuple, w))
            if fail is not None:
                pass
            elif sorted(map(tuple, got)) != flat:
                fail = ('server-lost', 'the clients delivered the complete messages %r but the server handed out %r' % (want_per_client, got))
            else:
                for w in want_per_client:
                    seen = [g for g in got if g in w]
                    unique = len(flat) == len(set(flat))              # message values identify their client only when all are distinct
                    if unique and [g for g in seen] != [x for x in w if x in seen]:
                        fail = ('server-order', 'messages of one client were handed out in the order %r, sent %r' % (seen, w))
    finally:
        ports.sleep, sockets._is_readable, ports.random.shuffle = saved
        try:
            server.close()
        except Exception:  # noqa: BLE001
            pass
        for s in raw:
            try:
                s.close()
            except OSError:
                pass
    return out, fail, 'server'


def impl_fmt(case):
    from mido.sockets import format_address, parse_address
    port, host = case[1], ''.join(map(chr, case[2:]))
    a = format_address(host, port)
    out = [len(a)] + [ord(c) for c in a]
    fail = None
    try:
        h, p = parse_address(a)
        out += [0, p, len(h)] + [ord(c) for c in h]
        if (h, p) != (host, port):
            fail = ('address-roundtrip', 'parse_address(format_address(%r, %r)) gave %r' % (host, port, (h, p)))
    except ValueError as e:
        out += [-1, core.exn_code(e)]
        if ':' not in host and 0 < port < 65536:
            fail = ('address-roundtrip', 'parse_address(format_address(%r, %r)) = parse_address(%r) raised %r' % (host, port, a, e))
    except Exception as e:  # noqa: BLE001
        out += [-1, core.exn_code(e)]
        fail = ('address-raises:' + type(e).__name__, 'parse_address(%r) raised %r' % (a, e))
    return out, fail, 'format'


def impl_parse(case):
    from mido.sockets import format_address, parse_address
    a = ''.join(map(chr, case))
    fail = None
    try:
        h, p = parse_address(a)
        out = [0, p, len(h)] + [ord(c) for c in h]
        if not (isinstance(p, int) and 0 < p < 65536 and ':' not in h):
            fail = ('address-accepted', 'parse_address(%r) gave %r' % (a, (h, p)))
        elif parse_address(format_address(h, p)) != (h, p):
            fail = ('address-roundtrip', 'format_address does not invert parse_address(%r) = %r' % (a, (h, p)))
    except ValueError as e:
        out = [-1, core.exn_code(e)]
    except Exception as e:  # noqa: BLE001
        out = [-1, core.exn_code(e)]
        fail = ('address-raises:' + type(e).__name__, 'parse_address(%r) raised %r' % (a, e))
    return out, fail, 'parse'


IMPL = {'sock': impl_sock, 'sockraw': impl_sock_raw, 'server': impl_server, 'fmt': impl_fmt, 'parse': impl_parse}


def job(j):
    tag, comp, cases = j
    return tag, core.eval_cases(comp, cases, IMPL[tag])


def segment(rng, stream):
    """cut a byte list into 1..4 non-empty segments (or byte by byte)"""
    if not stream:
        return []
    if rng.random() < 0.2:
        return [[b] for b in stream]
    k = min(len(stream), rng.randrange(1, 5))
    cuts = sorted(rng.sample(range(1, len(stream)), k - 1)) if k > 1 else []
    return [stream[i:j] for i, j in zip([0] + cuts, cuts + [len(stream)])]


def events(segs, last):
    ev = []
    for i, s in enumerate(segs):
        if i:
            ev.append(-1)
        ev += s
    return ev + ([last] if last is not None else [])


def run(out):
    rng = random.Random(out.seed)
    quick = out.tier == 'quick'
    socks, raws = [], []
    cuts_total = 0
    # message lists x EVERY cut offset x a segmentation x how the peer goes away (FIN / RST); iterate to the end
    for _ in range(25 if quick else 1500):
        ms = [canon.random_message(rng, sysex_max=6) for _ in range(rng.randrange(1, 5))]
        full = []
        for m in ms:
            enc = canon.std_layout(m)
            if enc[0] == 0xf0 and rng.random() < 0.6:       # real-time bytes strictly inside a sysex message
                for _k in range(rng.randrange(1, 3)):
                    enc.insert(rng.randrange(1, len(enc)), rng.choice([0xf8, 0xfa, 0xfb, 0xfc, 0xfe, 0xff]))
            full += enc
        for cut in range(len(full) + 1):
            cuts_total += 1
            for last in (-2, -3):
                ev = events(segment(rng, full[:cut]), last)
                ops = rng.choice([[2], [2], [2, 1, 3], [1, 2], [0, 1, 2], [4, 2], [0, 0, 2, 3, 3]])
                socks.append([1, 1, FUEL, len(ev)] + ev + ops)
    for full in ([0x90, 1, 2, 0xf0, 1, 0xf8, 2, 0xfe, 3, 0xf7, 0xc0, 5], [0xf0, 0xfa, 0xf7, 0xf0, 7, 0xff, 0xfb, 0xf7], [0xf0, 1, 2, 0xfc]):
        for cut in range(len(full) + 1):
            cuts_total += 1
            for last in (-2, -3):
                for seg in (segment(rng, full[:cut]), [[b] for b in full[:cut]]):
                    socks.append([1, 1, FUEL, len(events(seg, last))] + events(seg, last) + rng.choice([[2], [1, 2], [4, 2]]))
    # the port closes first: the peer must see it; operations after close
    for _ in range(40 if quick else 3000):
        ms = [canon.random_message(rng, sysex_max=4) for _ in range(rng.randrange(0, 3))]
        full = [b for m in ms for b in canon.std_layout(m)]
        ev = events(segment(rng, full), rng.choice([None, None, -2]))
        ops = [rng.choice([[1], [4], [0, 0], [3], [0, 1], [2]]) for _ in range(rng.randrange(1, 5))]
        ops = [x for o in ops for x in o]
        if 3 not in ops:
            ops += [3]
        socks.append([1, 1, FUEL, len(ev)] + ev + ops + [1, 3])
    # arbitrary bytes (stray data bytes, undefined status bytes, real-time bytes inside messages)
    from props.parser_common import random_stream
    for _ in range(60 if quick else 5000):
        stream = random_stream(rng, 40)
        ev = events(segment(rng, stream), rng.choice([-2, -3, -2, None]))
        raws.append([1, 1, FUEL, len(ev)] + ev + rng.choice([[2], [4, 2], [1, 1, 2]]))
    servers = []
    for _ in range(60 if quick else 600):
        def client():
            ms = [canon.random_message(rng, sysex_max=3) for _ in range(rng.randrange(0, 3))]
            full = [b for m in ms for b in canon.std_layout(m)]
            cut = rng.randrange(len(full) + 1) if rng.random() < 0.3 else len(full)
            return events(segment(rng, full[:cut]), rng.choice([None, -2, -2, -3]))
        cl = [client() for _ in range(rng.randrange(0, 3))]
        wt = [client() for _ in range(rng.randrange(0, 3))]
        c = [1, 1, 4, rng.choice([0, 1]), len(cl)]
        for e in cl:
            c += [len(e)] + e
        c += [len(wt)]
        for e in wt:
            c += [len(e)] + e
        c += [rng.randrange(1, 6)]
        servers.append(c)
    hosts = ['localhost', '127.0.0.1', '', 'a', 'example.org', '::1', 'host:', 'h st', '[::1]', 'x' * 40]
    fmts = [[1, p] + [ord(c) for c in h] for h in hosts for p in (1, 80, 8080, 65535, 0, 65536, -1, 100000, rng.randrange(1, 65536))]
    for _ in range(200 if quick else 5000):
        h = ''.join(rng.choice('abc.-:019 _') for _ in range(rng.randrange(0, 8)))
        fmts.append([1, rng.choice([rng.randrange(1, 65536), rng.randrange(-5, 70000)])] + [ord(c) for c in h])
    parses = []
    PORTS = ['80', ' 80', '80 ', '+80', '-1', '0', '65535', '65536', '0080', '8_0', '8__0', '_80', '80_', '', ' ', 'x', '8 0', '1e3', '0x10', '\t9\n', '９', '\x1c5']
    for h in ['localhost', '', 'a:b', ':', ' ']:
        for p in PORTS:
            parses.append([ord(c) for c in h + ':' + p])
            parses.append([ord(c) for c in h + p])
    for _ in range(300 if quick else 5000):
        parses.append([ord(rng.choice('ab:0189 _+-:\t')) for _ in range(rng.randrange(0, 9))])
    parses = [p for p in parses if all(c < 128 for c in p)]
    jobs = chunk_jobs(socks, 'sock', COMP_SOCK, 16) + chunk_jobs(raws, 'sockraw', COMP_SOCK, 4) + chunk_jobs(servers, 'server', COMP_SERVER, 4) \
        + chunk_jobs(fmts, 'fmt', COMP_FMT, 2) + chunk_jobs(parses, 'parse', COMP_PARSE, 2)
    for tag, rec in core.pmap(job, jobs):
        core.merge_into(out, rec, tag)
    out.rule = ('%d message lists (1-4 random valid messages, sysex up to 6 bytes) x EVERY cut offset of their byte stream (%d cuts) x peer close (FIN) and peer abort (RST), the '
                'bytes before the cut delivered in 1-4 random segments or byte by byte over a real TCP connection on 127.0.0.1; one event per _is_readable() call decides what the '
                'peer does next, so the arrival pattern is reproducible; operations: iteration to the end, poll / receive / iter_pending before it, close and use after close. '
                'Results, the closed flag, the state of the descriptor, the number of sleeps and the queue are compared with the model after every operation; the oracle recomputes '
                'the complete encodings of the stream without mido\'s parser and asks the still-open peer whether it sees the disconnect. %d streams of arbitrary bytes; %d PortServer '
                'runs with 0-2 accepted and 0-2 waiting connections; %d format/parse and %d parse_address cases (ASCII). Non-trivial: every case; distinct by construction.'
                % (25 if quick else 1500, cuts_total, len(raws), len(servers), len(fmts), len(parses)))
    out.sample({'component': COMP_SOCK, 'case': socks[3]})
    out.sample({'component': COMP_SERVER, 'case': servers[0]})
    real_readiness(out)
    core.kernel_crosscheck(out, [(COMP_SOCK, c) for c in rng.sample(socks, 60)] + [(COMP_PARSE, c) for c in rng.sample(parses, 40)], 'C18')
    out.assumptions += ['the kernel\'s TCP implementation on the loopback interface is the transport; the model takes its behaviour as the event list (a byte is readable, '
                        'nothing is readable, end of stream, connection reset)',
                        'CPython releases the descriptor when the socket object and every makefile() object are closed (socket._io_refs); observed as fileno() == -1 and by the peer',
                        'addresses are ASCII text']
