"""C20 — backend selection and port-opening arguments resolve deterministically: the complete configuration grid."""
import builtins
import itertools
import os
import random
import shutil
import sys
import tempfile

import core

THEOREMS_DEPEND_ON = ['Gen/AgreeMeta.v']
COMP = 90
MODSRC = '''
import builtins
from mido.ports import BaseInput, BaseOutput, BaseIOPort
LOG = builtins._verif_backend_log
LOG.append(('import', __name__))
class Input(BaseInput):
    def _open(self, **kwargs):
        LOG.append(('Input', self.name, dict(kwargs)))
class Output(BaseOutput):
    def _open(self, **kwargs):
        LOG.append(('Output', self.name, dict(kwargs)))
%(ioport)s
%(devices)s
'''
IOPORT = '''
class IOPort(BaseIOPort):
    def _open(self, **kwargs):
        LOG.append(('IOPort', self.name, dict(kwargs)))
'''
DEVLIST = [('m', True, False), ('b', True, True), ('c', False, True), ('z', True, True), ('b', False, True),
           ('e', True, False), ('f', False, True), ('e', False, True), ('g', False, True), ('g', True, False),
           ('b', True, True), ('A', True, True), ('k', True, False)]
# e, g: separate input and output entries; the system's order is not the alphabetical one; one name (b) stands for two devices
DEVICES = '''
def get_devices(**kwargs):
    LOG.append(('get_devices', None, dict(kwargs)))
    return [dict(name=n, is_input=i, is_output=o) for n, i, o in %r]
''' % (DEVLIST,)


def want_names(k):
    """the property's statement: inputs, outputs, and the input names that are also output names, in input order"""
    ins = [n for n, i, o in DEVLIST if i]
    outs = [n for n, i, o in DEVLIST if o]
    return {3: ins, 4: outs, 5: [n for n in ins if n in outs]}[k]


SCRATCH = None


def tok(z):
    """token -> string: -1 None, 0 '', k 'tok<k>'"""
    return None if z < 0 else ('' if z == 0 else 'tok%d' % z)


def untok(s):
    if s is None:
        return -1
    if s == '':
        return 0
    if isinstance(s, str) and s.startswith('tok') and s[3:].isdigit():
        return int(s[3:])
    return -99


def modname(m, native, getdev):
    return 'verif_fake_backend_m%d_%d%d' % (m, native, getdev)


def ensure_module(m, native, getdev):
    name = modname(m, native, getdev)
    path = os.path.join(SCRATCH, name + '.py')
    if not os.path.exists(path):
        # written under another name and renamed: a worker process must never import a half-written module
        tmp = '%s.%d.tmp' % (path, os.getpid())
        with open(tmp, 'w') as f:
            f.write(MODSRC % {'ioport': IOPORT if native else '', 'devices': DEVICES if getdev else ''})
        os.replace(tmp, path)
    return name


def bname_str(m, a, native, getdev):
    if m < 0:
        return None
    s = ensure_module(m, native, getdev)
    return s if a < 0 else s + '/' + (tok(a) or '')


def impl(case):
    import mido
    from mido.backends.backend import Backend
    nm, na, ca, ld, ue, em, ea, ei, eo, eio, native, getdev = case[:12]
    ops = case[12:]
    log = []
    builtins._verif_backend_log = log
    for k in list(sys.modules):
        if k.startswith('verif_fake_backend_'):
            del sys.modules[k]
    saved = {k: os.environ.get(k) for k in ('MIDO_BACKEND', 'MIDO_DEFAULT_INPUT', 'MIDO_DEFAULT_OUTPUT', 'MIDO_DEFAULT_IOPORT')}
    saved_default = mido.backends.backend.DEFAULT_BACKEND
    fail = None

    def mods(ev):
        return [int(e[1].split('_m')[1].split('_')[0]) for e in ev if e[0] == 'import']
    try:
        for var, val in (('MIDO_BACKEND', bname_str(em, ea, native, getdev)), ('MIDO_DEFAULT_INPUT', tok(ei)), ('MIDO_DEFAULT_OUTPUT', tok(eo)), ('MIDO_DEFAULT_IOPORT', tok(eio))):
            if val is None:
                os.environ.pop(var, None)
            else:
                os.environ[var] = val
        mido.backends.backend.DEFAULT_BACKEND = ensure_module(1, native, getdev)      # the default backend is module token 1
        kw = {}
        b = Backend(bname_str(nm, na, native, getdev), api=tok(ca), load=bool(ld), use_environ=bool(ue))
        out = [len(mods(log))] + mods(log)
        # which backend, stated directly: an explicit name beats MIDO_BACKEND (read when the Backend is made) beats the default; an explicit api
        # beats the /API suffix of whichever name was used
        src = bname_str(nm, na, native, getdev) or bname_str(em, ea, native, getdev) or ensure_module(1, native, getdev)
        want_name, _, sfx = src.partition('/')
        want_api = tok(ca) or sfx or None
        if (b.name, b.api) != (want_name, want_api):
            fail = ('backend-resolution', 'Backend(%r, api=%r) with MIDO_BACKEND=%r resolved to module %r api %r, expected %r api %r'
                    % (bname_str(nm, na, native, getdev), tok(ca), os.environ.get('MIDO_BACKEND'), b.name, b.api, want_name, want_api))
        i = 0
        while i < len(ops):
            k = ops[i]
            mark = len(log)
            if k in (0, 1, 2):
                name, akw = tok(ops[i + 1]), ops[i + 2]
                kwargs = {} if akw < 0 else {'api': tok(akw)}
                fn = (b.open_input, b.open_output, b.open_ioport)[k]
                port = fn(name, **kwargs) if name is not None else fn(**kwargs)
                i += 3
                ev = [e for e in log[mark:] if e[0] != 'import']
                if k == 2 and not native:
                    (ki, ni, kwi), (ko, no, kwo) = ev[0], ev[1]
                    ok = (ki, ko) == ('Input', 'Output') and kwi.get('api', None) == kwo.get('api', None) and ('api' in kwi) == ('api' in kwo) \
                        and type(port).__name__ == 'IOPort' and port.input.name == ni and port.output.name == no
                    out += [3, untok(ni), untok(no), untok(kwi['api']) if 'api' in kwi else -1, -9]
                    if not ok and fail is None:
                        fail = ('wrapper', 'open_ioport without a native IOPort did not wrap an Input/Output pair: %r' % (ev,))
                else:
                    kind, n, kws = ev[0]
                    out += [{'Input': 0, 'Output': 1, 'IOPort': 2}[kind], untok(n), untok(kws['api']) if 'api' in kws else -1, -9]
                    want = {0: 'Input', 1: 'Output', 2: 'IOPort'}[k]
                    if kind != want and fail is None:
                        fail = ('constructor', 'open op %d called %s' % (k, kind))
                # the property's precedence, stated directly: an explicit (non-empty) name reaches every constructor, an explicit api keyword
                # reaches every constructor; without a name the environment variable is used when use_environ is set
                if fail is None:
                    got_names = [e[1] for e in ev]
                    got_apis = [e[2].get('api') for e in ev]
                    if name:
                        if any(n != name for n in got_names):
                            fail = ('explicit-name-lost', 'open op %d with the explicit name %r constructed ports named %r' % (k, name, got_names))
                    elif name is None and not ue:
                        if any(n is not None for n in got_names):
                            fail = ('environment-used', 'open op %d without a name on a backend with use_environ=False constructed ports named %r' % (k, got_names))
                    elif name is None and ue:
                        envs = {0: [tok(ei)], 1: [tok(eo)], 2: ([tok(eio)] if (native or tok(eio)) else [tok(ei), tok(eo)])}[k]
                        envs = envs * (len(got_names) // len(envs)) if envs else envs
                        if all(envs) and got_names != envs:
                            fail = ('environment-name-lost', 'open op %d without a name constructed ports named %r, the environment says %r' % (k, got_names, envs))
                    if akw >= 0 and tok(akw) and any(a != tok(akw) for a in got_apis):
                        fail = ('explicit-api-lost', 'open op %d with api=%r passed api %r' % (k, tok(akw), got_apis))
                    elif akw < 0 and want_api and any(a != want_api for a in got_apis):
                        fail = ('backend-api-lost', 'open op %d on a backend with api %r passed api %r to the constructors' % (k, want_api, got_apis))
                port.close()
            elif k in (3, 4, 5):
                akw = ops[i + 1]
                kwargs = {} if akw < 0 else {'api': tok(akw)}
                names = (b.get_input_names, b.get_output_names, b.get_ioport_names)[k - 3](**kwargs)
                i += 2
                ev = [e for e in log[mark:] if e[0] != 'import']
                if getdev:
                    kws = ev[0][2]
                    out += [4, untok(kws['api']) if 'api' in kws else -1, -9]
                    if fail is None and (tok(akw) if akw >= 0 and tok(akw) else want_api) and kws.get('api') != (tok(akw) if akw >= 0 and tok(akw) else want_api):
                        fail = ('listing-api-lost', 'name listing %d passed api %r to get_devices, expected %r' % (k, kws.get('api'), tok(akw) if akw >= 0 and tok(akw) else want_api))
                    want = want_names(k)
                    if names != want and fail is None:
                        fail = ('names', 'name listing %d gave %r, expected %r' % (k, names, want))
                else:
                    out += [5, -9]
                    if names != [] and fail is None:
                        fail = ('names', 'a module without get_devices gave names %r' % (names,))
            else:
                b.module
                i += 1
                out += [6, -9]
        out += [len(mods(log))] + mods(log)
    except Exception as e:  # noqa: BLE001
        out = [-1, core.exn_code(e)]
        fail = ('raises:' + type(e).__name__, 'configuration %r raised %r' % (case, e))
    finally:
        mido.backends.backend.DEFAULT_BACKEND = saved_default
        for k, v in saved.items():
            if v is None:
                os.environ.pop(k, None)
            else:
                os.environ[k] = v
    return out, fail, 'native%d-dev%d' % (native, getdev)


def job(j):
    global SCRATCH
    tag, comp, cases, scratch = j
    SCRATCH = scratch
    if scratch not in sys.path:
        sys.path.insert(0, scratch)
    return tag, core.eval_cases(comp, cases, impl, repeat=60)


def run(out):
    global SCRATCH
    rng = random.Random(out.seed)
    SCRATCH = tempfile.mkdtemp(prefix='verif_c20_')
    sys.path.insert(0, SCRATCH)
    try:
        for m_ in range(0, 8):                                    # every fake module exists before the worker processes start
            for nat_ in (0, 1):
                for gd_ in (0, 1):
                    ensure_module(m_, nat_, gd_)
        names = [(-1, -1), (2, -1), (2, 5), (2, 0)]               # absent / 'mod' / 'mod/API' / 'mod/'
        envb = [(-1, -1), (3, -1), (3, 6)]                        # MIDO_BACKEND unset / 'mod3' / 'mod3/API6'
        var3 = [-1, 0, 7]                                         # unset / set-but-empty / set
        cases = []
        OPS = [[0, -1, -1], [0, 8, -1], [0, -1, 9], [1, -1, -1], [1, 8, 9], [2, -1, -1], [2, 8, -1], [2, 0, -1], [3, -1], [4, 9], [5, -1], [6]]
        for (nm, na), ca, ld, ue, (em, ea), ei, eo, eio, native, getdev in itertools.product(
                names, [-1, 0, 4], [0, 1], [0, 1], envb, var3, var3, var3, [0, 1], [0, 1]):
            # three operations per configuration, rotating through the operation list so that every operation meets every configuration class
            k = len(cases)
            ops = OPS[k % len(OPS)] + OPS[(k // len(OPS) + 3) % len(OPS)] + OPS[(k * 7 + 5) % len(OPS)]
            cases.append([nm, na, ca, ld, ue, em, ea, ei, eo, eio, native, getdev] + ops)
        from props.parser_common import chunk_jobs
        jobs = [(t, c, cs, SCRATCH) for t, c, cs in chunk_jobs(cases, 'grid', COMP)]
        for tag, rec in core.pmap(job, jobs):
            core.merge_into(out, rec, tag)
        # set_backend rebinds the top-level functions
        import mido
        saved = {k: getattr(mido, k) for k in dir(mido) if k.split('_')[0] in ('open', 'get')}
        saved_backend = mido.backend
        builtins._verif_backend_log = []
        try:
            mname = ensure_module(4, 1, 1)
            mido.set_backend(mname + '/' + 'tok5')
            out.evaluations += 1
            ok = all(getattr(mido, k).__self__ is mido.backend for k in saved) and mido.backend.name == mname and mido.backend.api == 'tok5' \
                and not mido.backend.loaded and mido.get_ioport_names() == want_names(5) and mido.backend.loaded
            if not ok:
                out.failures.append(('set_backend', 'set_backend did not rebind the top-level open_*/get_* functions to the chosen backend', {'component': 'set_backend'}))
            # every history of up to 4 set_backend / use steps over two modules and two APIs: after each set_backend the top-level
            # functions belong to a backend with exactly the requested module and API, and calls through them carry that API
            ma, mb = ensure_module(4, 1, 1), ensure_module(5, 1, 1)
            steps = [('set', ma, None, False), ('set', ma, 'tok5', False), ('set', ma, 'tok6', True), ('set', mb, 'tok5', False),
                     ('use', 'open_input'), ('use', 'get_input_names')]
            nh = 0
            for ln in (1, 2, 3, 4):
                for hist in itertools.product(steps, repeat=ln):
                    if hist[0][0] != 'set' or hist[-1][0] != 'use':
                        continue
                    nh += 1
                    for k in list(sys.modules):
                        if k.startswith('verif_fake_backend_'):
                            del sys.modules[k]
                    want = None
                    for st in hist:
                        if st[0] == 'set':
                            _, mod, api, load = st
                            mido.set_backend(mod if api is None else mod + '/' + api, load=load)
                            want = (mod, api)
                            ok = all(getattr(mido, k).__self__ is mido.backend for k in saved) and (mido.backend.name, mido.backend.api) == want
                        else:
                            mark = len(builtins._verif_backend_log)
                            if st[1] == 'open_input':
                                mido.open_input('x')
                            else:
                                mido.get_input_names()
                            ev = [e for e in builtins._verif_backend_log[mark:] if e[0] != 'import']
                            ok = len(ev) == 1 and ev[0][2].get('api') == want[1] and ('api' in ev[0][2]) == (want[1] is not None) \
                                and mido.backend.module.__name__ == want[0]
                        if not ok:
                            out.failures.append(('set_backend', 'after the history %r the top-level functions do not use backend %r' % (hist, want),
                                                 {'component': 'set_backend', 'history': repr(hist)}))
                            break
            # set_backend() without a name (what `import mido` itself does): MIDO_BACKEND decides, read at that moment; then the default
            saved_env = os.environ.get('MIDO_BACKEND')
            saved_default = mido.backends.backend.DEFAULT_BACKEND
            try:
                mido.backends.backend.DEFAULT_BACKEND = mb
                for envval, want in ((ma + '/tok6', (ma, 'tok6')), (ma, (ma, None)), (None, (mb, None)), (mb + '/tok5', (mb, 'tok5'))):
                    for call in ('set_backend()', 'set_backend(None)', 'set_backend(load=True)'):
                        nh += 1
                        if envval is None:
                            os.environ.pop('MIDO_BACKEND', None)
                        else:
                            os.environ['MIDO_BACKEND'] = envval
                        try:
                            mido.set_backend(ma + '/other')          # something else first
                            {'set_backend()': lambda: mido.set_backend(), 'set_backend(None)': lambda: mido.set_backend(None),
                             'set_backend(load=True)': lambda: mido.set_backend(load=True)}[call]()
                            mark = len(builtins._verif_backend_log)
                            mido.open_output('y')
                            ev = [e for e in builtins._verif_backend_log[mark:] if e[0] != 'import']
                            ok = all(getattr(mido, k).__self__ is mido.backend for k in saved) and (mido.backend.name, mido.backend.api) == want \
                                and len(ev) == 1 and ev[0][2].get('api') == want[1] and mido.backend.module.__name__ == want[0]
                        except Exception as e:  # noqa: BLE001
                            ok = False
                            out.failures.append(('set_backend-environment', 'with MIDO_BACKEND=%r, mido.%s (then open_output) raised %r; expected the backend %r'
                                                 % (envval, call, e, want), {'component': 'set_backend', 'MIDO_BACKEND': envval, 'call': call}))
                            continue
                        if not ok:
                            out.failures.append(('set_backend-environment', 'with MIDO_BACKEND=%r, mido.%s binds the top-level functions to %r, expected %r'
                                                 % (envval, call, (mido.backend.name, mido.backend.api), want), {'component': 'set_backend', 'MIDO_BACKEND': envval, 'call': call}))
            finally:
                mido.backends.backend.DEFAULT_BACKEND = saved_default
                if saved_env is None:
                    os.environ.pop('MIDO_BACKEND', None)
                else:
                    os.environ['MIDO_BACKEND'] = saved_env
            # the MIDO_DEFAULT_* variables are read when a port is opened, not when the Backend was made: change them between calls on ONE backend;
            # and nothing a call was given sticks to the backend for the next call
            from mido.backends.backend import Backend
            saved_defaults = {k: os.environ.get(k) for k in ('MIDO_DEFAULT_INPUT', 'MIDO_DEFAULT_OUTPUT', 'MIDO_DEFAULT_IOPORT')}
            try:
                for native in (1, 0):
                    mod = ensure_module(6, native, 1)
                    b = Backend(mod + '/tokB')
                    script = [('env', 'MIDO_DEFAULT_INPUT', 'in-A'), ('open_input', None, {}), ('env', 'MIDO_DEFAULT_INPUT', 'in-B'), ('open_input', None, {}),
                              ('open_input', 'x', {'api': 'tokJ'}), ('open_input', None, {}), ('env', 'MIDO_DEFAULT_INPUT', None), ('open_input', None, {}),
                              ('env', 'MIDO_DEFAULT_OUTPUT', 'out-A'), ('open_output', None, {'autoreset': True}), ('open_output', None, {}),
                              ('env', 'MIDO_DEFAULT_IOPORT', 'io-A'), ('open_ioport', None, {}), ('env', 'MIDO_DEFAULT_IOPORT', None), ('open_ioport', None, {}),
                              ('open_ioport', 'y', {'api': 'tokK'}), ('open_ioport', None, {}), ('get_input_names', None, {'api': 'tokL'}), ('get_input_names', None, {})]
                    for step in script:
                        if step[0] == 'env':
                            if step[2] is None:
                                os.environ.pop(step[1], None)
                            else:
                                os.environ[step[1]] = step[2]
                            continue
                        nh += 1
                        what, name, kw = step
                        # the same call on a backend made this instant is the reference
                        results = []
                        for bb in (b, Backend(mod + '/tokB')):
                            mark = len(builtins._verif_backend_log)
                            fn = getattr(bb, what)
                            r = fn(**kw) if (name is None) else fn(name, **kw)
                            if hasattr(r, 'close'):
                                r.close()
                            results.append([(e[0], e[1], sorted(e[2].items())) for e in builtins._verif_backend_log[mark:] if e[0] != 'import'])
                        if results[0] != results[1]:
                            out.failures.append(('backend-remembers', 'one Backend used for a series of calls: %s(%r, **%r) with the environment %r reaches the module as %r, on a Backend made this instant as %r'
                                                 % (what, name, kw, {k: os.environ.get(k) for k in saved_defaults}, results[0], results[1]),
                                                 {'component': 'set_backend', 'call': what, 'native': native}))
                            break
            finally:
                for k, v in saved_defaults.items():
                    if v is None:
                        os.environ.pop(k, None)
                    else:
                        os.environ[k] = v
            # two threads need the module for the first time at once: both get the finished module
            import threading
            slow = 'verif_fake_backend_slow'
            src = ("import builtins, time\nbuiltins._verif_slow_started.set()\nbuiltins._verif_slow_go.wait(5)\n"
                   "from mido.ports import BaseInput, BaseOutput, BaseIOPort\nLOG = builtins._verif_backend_log\nLOG.append(('import', __name__))\n"
                   "class Input(BaseInput):\n    pass\nclass Output(BaseOutput):\n    pass\nclass IOPort(BaseIOPort):\n    pass\n"
                   "def get_devices(**kwargs):\n    return [dict(name='dev', is_input=True, is_output=True)]\n")
            tmp = os.path.join(SCRATCH, slow + '.py.tmp')
            with open(tmp, 'w') as f:
                f.write(src)
            os.replace(tmp, os.path.join(SCRATCH, slow + '.py'))
            sys.modules.pop(slow, None)
            builtins._verif_slow_started, builtins._verif_slow_go = threading.Event(), threading.Event()
            nh += 1
            res = {}

            def first():
                try:
                    res['a'] = type(Backend(slow).open_ioport('p')).__module__
                except Exception as e:  # noqa: BLE001
                    res['a'] = repr(e)

            def second():
                try:
                    bb = Backend(slow)
                    res['b'] = (type(bb.open_ioport('p')).__module__, bb.get_input_names())
                except Exception as e:  # noqa: BLE001
                    res['b'] = repr(e)
            ta = threading.Thread(target=first, daemon=True); ta.start()
            builtins._verif_slow_started.wait(5)
            tb = threading.Thread(target=second, daemon=True); tb.start()
            time_mod = __import__('time'); time_mod.sleep(0.1)
            builtins._verif_slow_go.set()
            ta.join(5); tb.join(5)
            if res.get('a') != slow or res.get('b') != (slow, ['dev']):
                out.failures.append(('import-race', 'two threads needing the backend module for the first time at once: the first opened an IOPort of %r, the second got %r '
                                     '(expected the module\'s own IOPort and its device list for both)' % (res.get('a'), res.get('b')), {'component': 'set_backend'}))
            out.evaluations += nh
            out.components['set_backend histories (implementation against the property statement)'] = {'cases': nh}
        finally:
            for k, v in saved.items():
                setattr(mido, k, v)
            mido.backend = saved_backend
        out.exhaustive = True
        out.extra['exhaustive_scope'] = ('%d configurations: backend name absent/mod/mod+API/mod+empty API x api keyword absent/empty/set x load x use_environ x '
                                         'MIDO_BACKEND unset/mod/mod+API x each of MIDO_DEFAULT_INPUT/OUTPUT/IOPORT unset/empty/set x native IOPort x get_devices' % len(cases))
        out.rule = ('the complete configuration grid, each configuration with three operations (open_input/open_output/open_ioport with and without explicit '
                    'name and api, the three name listings, module access) rotating so that every operation meets every configuration class; a recording fake '
                    'backend module is imported from a scratch directory (import log for the lazy-import clause); constructor, positional name, api keyword '
                    'and the import trace are compared with the model. Non-trivial: every configuration; distinct by construction.')
        out.sample({'component': 'grid', 'case': cases[1234]})
        core.kernel_crosscheck(out, [(COMP, c) for c in rng.sample(cases, 150)], 'C20')
    finally:
        shutil.rmtree(SCRATCH, ignore_errors=True)
        if SCRATCH in sys.path:
            sys.path.remove(SCRATCH)
    out.assumptions += ['Python\'s import system is represented by the import log of the fake module (one entry per real import)',
                        'strings are tokens (empty / distinct non-empty); the theorems quantify over all tokens']
