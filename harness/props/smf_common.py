"""Shared by C07, C08, C09, C16, C17: encodings of meta messages / tracks / files, generators, runners."""
import io
import random

import canon
import core

COMP_SAVE, COMP_LOAD, COMP_META_BYTES, COMP_META_FROM_BYTES, COMP_VARINT = 40, 41, 42, 43, 44

MAJOR = ['Cb', 'Gb', 'Db', 'Ab', 'Eb', 'Bb', 'F', 'C', 'G', 'D', 'A', 'E', 'B', 'F#', 'C#']
MINOR = ['Abm', 'Ebm', 'Bbm', 'Fm', 'Cm', 'Gm', 'Dm', 'Am', 'Em', 'Bm', 'F#m', 'C#m', 'G#m', 'D#m', 'A#m']
KEY_OF = {}
for i, k in enumerate(MAJOR):
    KEY_OF[(i - 7, 0)] = k
for i, k in enumerate(MINOR):
    KEY_OF[(i - 7, 1)] = k
SF_OF = {v: k for k, v in KEY_OF.items()}
FRAME_RATES = [24, 25, 29.97, 30]
TEXT_TYPES = {1: ('text', 'text'), 2: ('copyright', 'text'), 3: ('track_name', 'name'), 4: ('instrument_name', 'name'),
              5: ('lyrics', 'text'), 6: ('marker', 'text'), 7: ('cue_marker', 'text'), 9: ('device_name', 'name')}
TEXT_TB = {v[0]: k for k, v in TEXT_TYPES.items()}
KNOWN_TYPE_BYTES = {0, 1, 2, 3, 4, 5, 6, 7, 9, 0x20, 0x21, 0x2f, 0x51, 0x54, 0x58, 0x59, 0x7f}
CHARSETS = {0: 'latin1', 1: 'ascii'}


def tval_py(t):
    return t[1] if t[0] == 0 else t[1] + 0.5


def tval_ints(x):
    if isinstance(x, bool) or isinstance(x, int):
        return [0, int(x)]
    if isinstance(x, float) and x - 0.5 == int(x - 0.5):
        return [1, int(x - 0.5)]
    return [7, 7]


def meta_obj(mi, time=0):
    """encoded meta -> mido object (constructed with skip_checks so that any modelled value can be built)"""
    import mido
    from mido.midifiles.meta import MetaMessage, UnknownMetaMessage
    k = mi[0]
    if k == 0:
        return MetaMessage('sequence_number', number=mi[1], time=time, skip_checks=True)
    if k == 1:
        name, attr = TEXT_TYPES[mi[1]]
        return MetaMessage(name, time=time, skip_checks=True, **{attr: ''.join(map(chr, mi[3:3 + mi[2]]))})
    if k == 2:
        return MetaMessage('channel_prefix', channel=mi[1], time=time, skip_checks=True)
    if k == 3:
        return MetaMessage('midi_port', port=mi[1], time=time, skip_checks=True)
    if k == 4:
        return MetaMessage('end_of_track', time=time, skip_checks=True)
    if k == 5:
        return MetaMessage('set_tempo', tempo=mi[1], time=time, skip_checks=True)
    if k == 6:
        return MetaMessage('smpte_offset', frame_rate=FRAME_RATES[mi[1]], hours=mi[2], minutes=mi[3], seconds=mi[4], frames=mi[5],
                           sub_frames=mi[6], time=time, skip_checks=True)
    if k == 7:
        return MetaMessage('time_signature', numerator=mi[1], denominator=mi[2], clocks_per_click=mi[3],
                           notated_32nd_notes_per_beat=mi[4], time=time, skip_checks=True)
    if k == 8:
        return MetaMessage('key_signature', key=KEY_OF[(mi[1], mi[2])], time=time, skip_checks=True)
    if k == 9:
        return MetaMessage('sequencer_specific', data=tuple(mi[2:2 + mi[1]]), time=time, skip_checks=True)
    if k == 10:
        return UnknownMetaMessage(mi[1], data=tuple(mi[3:3 + mi[2]]), time=time)
    raise ValueError(mi)


def meta_len(mi):
    k = mi[0]
    return {0: 2, 2: 2, 3: 2, 4: 1, 5: 2, 6: 7, 7: 5, 8: 3}.get(k) or (3 + mi[2] if k in (1, 10) else 2 + mi[1])


def meta_ints(m):
    """mido meta message -> encoding, from vars() only"""
    d = vars(m)
    t = d['type']
    try:
        if t == 'unknown_meta':
            return [10, d['type_byte'], len(d['data'])] + list(d['data'])
        if t == 'sequence_number':
            return [0, d['number']]
        if t in TEXT_TB:
            s = d[TEXT_TYPES[TEXT_TB[t]][1]]
            return [1, TEXT_TB[t], len(s)] + [ord(c) for c in s]
        if t == 'channel_prefix':
            return [2, d['channel']]
        if t == 'midi_port':
            return [3, d['port']]
        if t == 'end_of_track':
            return [4]
        if t == 'set_tempo':
            return [5, d['tempo']]
        if t == 'smpte_offset':
            return [6, FRAME_RATES.index(d['frame_rate']), d['hours'], d['minutes'], d['seconds'], d['frames'], d['sub_frames']]
        if t == 'time_signature':
            return [7, d['numerator'], d['denominator'], d['clocks_per_click'], d['notated_32nd_notes_per_beat']]
        if t == 'key_signature':
            sf, mode = SF_OF[d['key']]
            return [8, sf, mode]
        if t == 'sequencer_specific':
            return [9, len(d['data'])] + list(d['data'])
    except Exception:  # noqa: BLE001
        pass
    return [-77, hash(repr(sorted(d.items(), key=repr))) % 1000]


def event_obj(ev, time):
    import mido
    if ev[0] == 0:
        name, kw, _ = canon.kwargs_of(ev[1:])
        return mido.Message(name, time=time, skip_checks=True, **kw)
    return meta_obj(ev[1:], time)


def event_ints(m):
    if m.is_meta:
        return [1] + meta_ints(m)
    return [0] + canon.msg_ints(m)


def file_obj(f):
    """f = dict(type, tpb, tracks=[[(tval, ev), ...], ...]) -> mido.MidiFile"""
    import mido
    mf = mido.MidiFile(type=1, charset=f.get('charset', 'latin1'))
    mf.type = f['type']
    mf.ticks_per_beat = f['tpb']
    for tr in f['tracks']:
        t = mido.MidiTrack()
        for tv, ev in tr:
            t.append(event_obj(ev, tval_py(tv)))
        mf.tracks.append(t)
    return mf


def file_case(f):
    out = [f['type'], f['tpb'], len(f['tracks'])]
    for tr in f['tracks']:
        out.append(len(tr))
        for tv, ev in tr:
            out += list(tv) + list(ev)
    return out


def file_ints(mf):
    out = [mf.type, mf.ticks_per_beat, len(mf.tracks)]
    for tr in mf.tracks:
        out.append(len(tr))
        for m in tr:
            out += tval_ints(m.time) + event_ints(m)
    return out


def ev_is_eot(ev):
    return ev[0] == 1 and ev[1] == 4


def normalise_track(tr):
    """the harness's own fix_end_of_track for integer times"""
    out, acc = [], 0
    for tv, ev in tr:
        if ev_is_eot(ev):
            acc += tv[1]
        else:
            out.append(((0, tv[1] + acc), ev))
            acc = 0
    out.append(((0, acc), [1, 4]))
    return out


# ---- generators -----------------------------------------------------------------------------------------------
DELTAS = [0, 0, 0, 1, 2, 96, 127, 128, 480, 16383, 16384, 2097151, 2097152, 268435455, 268435456]


def random_text(rng, cs=0, bad=False):
    n = rng.choice([0, 1, 2, 5, 20])
    hi = 256 if cs == 0 else 128
    t = [rng.choice([65, 97, 32, 0, hi - 1, rng.randrange(hi)]) for _ in range(n)]
    if bad:
        t.append(hi + rng.randrange(3) * 1000)
    return t


def random_meta(rng, cs=0, weird=False):
    k = rng.randrange(11)
    b = lambda hi, lo=0: rng.choice([lo, hi, rng.randint(lo, hi)])
    if k == 0:
        return [0, b(65535)]
    if k == 1:
        t = random_text(rng, cs, bad=weird and rng.random() < 0.5)
        return [1, rng.choice(list(TEXT_TYPES)), len(t)] + t
    if k == 2:
        return [2, b(255)]
    if k == 3:
        return [3, b(255)]
    if k == 4:
        return [4]
    if k == 5:
        return [5, b(16777215)]
    if k == 6:
        return [6, rng.randrange(4), b(31), b(59), b(59), b(255), b(99)]
    if k == 7:
        return [7, b(255), 2 ** rng.choice([0, 1, 2, 3, 7, 29, 31, 39, 62, 128, 255, rng.randrange(256)]), b(255), b(255)]
    if k == 8:
        return [8, rng.randint(-7, 7), rng.randrange(2)]
    if k == 9:
        n = rng.choice([0, 1, 3, 127, 128])
        return [9, n] + [rng.randrange(256) for _ in range(n)]
    n = rng.choice([0, 1, 3, 10])
    return [10, rng.choice([8, 0x0a, 0x10, 0x22, 0x50, 0x60, 0x7e, 0x55]), n] + [rng.randrange(256) for _ in range(n)]


def random_event(rng, cs=0, prev=None, weird=False):
    r = rng.random()
    if r < 0.5:
        if prev is not None and prev[0] == 0 and prev[1] < 7 and rng.random() < 0.6:
            m = [prev[1], prev[2]] + [rng.randrange(128) if prev[1] != 6 else rng.randint(-8192, 8191) for _ in prev[3:]]   # same status
            return [0] + m
        m = canon.random_message(rng, sysex_max=4)
        while m[0] >= 12 or m[0] == 7:
            m = canon.random_message(rng, sysex_max=4)
        return [0] + m
    if r < 0.62:
        n = rng.choice([0, 1, 2, 5, 126, 127, 128, 129])
        return [0, 7, n] + [rng.randrange(128) for _ in range(n)]
    if r < 0.7:
        return [1, 4]
    return [1] + random_meta(rng, cs, weird)


def random_track(rng, cs=0, n=None, weird=False):
    n = rng.randrange(0, 25) if n is None else n
    tr, prev = [], None
    for _ in range(n):
        ev = random_event(rng, cs, prev, weird)
        tr.append(((0, rng.choice(DELTAS) if rng.random() < 0.7 else rng.randrange(1000)), ev))
        prev = ev
    return tr


def random_file(rng, cs=0, weird=False):
    ty = rng.choice([0, 1, 1, 2])
    nt = 1 if ty == 0 else rng.randrange(0, 5)
    f = {'type': ty, 'tpb': rng.choice([1, 96, 480, 960, 32767, rng.randrange(1, 32768)]), 'tracks': [random_track(rng, cs, weird=weird) for _ in range(nt)]}
    return f


def make_unstorable(rng, f):
    """returns a copy with one kind of unstorable content, and a label"""
    import copy
    g = copy.deepcopy(f)
    kind = rng.choice(['realtime', 'negative', 'float', 'type0', 'header'])
    tracks = [t for t in g['tracks'] if t]
    if kind in ('realtime', 'negative', 'float') and tracks:
        tr = rng.choice(tracks)
        i = rng.randrange(len(tr))
        tv, ev = tr[i]
        if kind == 'realtime':
            tr.insert(i, ((0, rng.choice([0, 5])), [0, rng.choice([12, 13, 14, 15, 16, 17])]))
        elif kind == 'negative':
            tr[i] = ((0, -rng.choice([1, 5, 128])), ev)
        else:
            tr[i] = ((1, rng.randrange(10)), ev)
        return g, kind
    if kind == 'type0' or not tracks:
        g['type'] = 0
        if len(g['tracks']) == 1:
            g['tracks'].append([])
        return g, 'type0'
    g['tpb'] = rng.choice([32768, -32769, 70000])
    return g, 'header'


# ---- runners ---------------------------------------------------------------------------------------------------------
class _Full(io.BytesIO):
    """a disk that fills up: the sixth write fails"""
    n = 0

    def write(self, b):
        self.n += 1
        if self.n > 5:
            raise OSError(28, 'No space left on device')
        return super().write(b)


_SMF_NOISE = [0]


def smf_noise(mf):
    """What a program does around a save(): it uses the lists the length-prefix helper hands out (the library's own decoder works on its
    argument in place), and now and then a save() of ANOTHER file is refused half way through a track and the exception caught. The save
    that follows must not notice either."""
    import mido
    from mido.midifiles import meta as meta_mod
    _SMF_NOISE[0] += 1
    vals = {128, 300, 16384}
    for tr in mf.tracks[:4]:
        for m in tr[:40]:
            if isinstance(m.time, int) and m.time >= 128:
                vals.add(m.time)
            n = len(getattr(m, 'data', None) or getattr(m, 'text', None) or getattr(m, 'name', None) or ())
            if n >= 127:
                vals |= {n, n + 1}
    for v in sorted(vals):
        try:
            a = meta_mod.encode_variable_int(v)
            meta_mod.decode_variable_int(a)
            a.append(0)
        except Exception:  # noqa: BLE001
            pass
    k = _SMF_NOISE[0] % 5
    bad = [mido.Message('note_on', note=5, velocity=6, time=0.5), mido.Message('note_on', time=-1), mido.Message('clock'),
           mido.MetaMessage('text', text='caf\u00e9 \u4e2d'), None][k]
    other = mido.MidiFile(charset='ascii')
    other.tracks.append(mido.MidiTrack([mido.Message('note_on', note=1, velocity=2, time=3), mido.MetaMessage('marker', text='left over', time=200),
                                        mido.Message('sysex', data=[1] * 130, time=1)] + ([bad] if bad is not None else [])))
    try:
        other.save(file=_Full() if bad is None else io.BytesIO())
    except Exception:  # noqa: BLE001
        pass


_SAME_OBJ = [0]


def refused_save_first(mf):
    """A save() of THIS file object that fails - a message the format cannot hold appended for the occasion, or a device that fills up
    half way - is caught, the cause removed, and the file saved again: the second save must not notice the first."""
    import mido
    _SAME_OBJ[0] += 1
    k = _SAME_OBJ[0] % 4
    if k == 0 or not mf.tracks:
        return
    if k == 3:
        try:
            mf.save(file=_Full())
        except Exception:  # noqa: BLE001
            pass
        return
    tr = max(mf.tracks, key=len)
    bad = mido.Message('clock', time=1) if k == 1 else mido.Message('note_on', note=9, velocity=9, time=-3)
    tr.append(bad)
    try:
        mf.save(file=io.BytesIO())
    except Exception:  # noqa: BLE001
        pass
    finally:
        del tr[-1]


def run_save(f, cs=0):
    """-> (ints for comparison with the model, bytes or None, exception or None)"""
    try:
        mf = file_obj(dict(f, charset=CHARSETS[cs]))
        smf_noise(mf)
        refused_save_first(mf)
        buf = io.BytesIO()
        mf.save(file=buf)
        bs = buf.getvalue()
        return [0, len(bs)] + list(bs), bs, None
    except Exception as e:  # noqa: BLE001
        return [-1, core.exn_code(e)], None, e


def run_load(bs, cs=0, clip=False, debug=False):
    import contextlib
    import mido
    try:
        if debug:
            with contextlib.redirect_stdout(io.StringIO()):
                mf = mido.MidiFile(file=io.BytesIO(bytes(bs)), clip=clip, charset=CHARSETS[cs], debug=True)
        else:
            mf = mido.MidiFile(file=io.BytesIO(bytes(bs)), clip=clip, charset=CHARSETS[cs])
        return [0] + file_ints(mf), mf, None
    except Exception as e:  # noqa: BLE001
        return [-1, 0], None, e
