"""C19 — SYX files round-trip sysex messages (real files in a scratch directory outside /repo and /verif)."""
import os
import random
import shutil
import tempfile

import canon
import core
from props import parser_common as pc

COMP_WRITE, COMP_READ = 30, 31
THEOREMS_DEPEND_ON = ['Gen/AgreeCodec.v']
WS = [' ', '\t', '\n', '\r', '\x0b', '\x0c', '\x1c', '\x1d', '\x1e', '\x1f', '\x85', '\xa0', '\r\n', '  ', '']


def decode_msgs(ints):
    n, rest, ms = ints[0], ints[1:], []
    for _ in range(n):
        name, kw, rest2 = canon.kwargs_of(rest)
        ms.append(rest[:len(rest) - len(rest2)])
        rest = rest2
    return ms


def impl_write(case, d=None):
    import mido
    plaintext = bool(case[0])
    mints = decode_msgs(case[1:])
    msgs = [mido.Message(canon.kwargs_of(m)[0], **canon.kwargs_of(m)[1]) for m in mints]
    d = d or SCRATCH
    path = os.path.join(d, 'w%d.syx' % os.getpid())          # one path, written over and over: what is read is what the file holds NOW
    fail = None
    try:
        mido.write_syx_file(path, msgs, plaintext=plaintext)
        data = open(path, 'rb').read()
        out = canon.out_list(data)
        back = mido.read_syx_file(path)
        want = [m for m in mints if m[0] == 7]
        have = [canon.msg_ints(m) for m in back]
        if have != want:
            fail = ('roundtrip', 'write(plaintext=%r) %r then read gave %r' % (plaintext, msgs, back))
        else:
            # the list belongs to its caller: emptied, it must not empty the next reading of the same file
            del back[:]
            if [canon.msg_ints(m) for m in mido.read_syx_file(path)] != want:
                fail = ('result-shared', 'after the list returned by read_syx_file was emptied by its caller, reading the unchanged file again gives something else (%r written)' % (msgs,))
    except Exception as e:  # noqa: BLE001
        out = [-1, core.exn_code(e)]
        fail = ('raises:' + type(e).__name__, 'write/read of %r raised %r' % (msgs, e))
    return out, fail, 'write:%s:%d' % ('text' if plaintext else 'bin', min(len(mints), 4))


def impl_read(case):
    import mido
    path = os.path.join(SCRATCH, 'r%d.syx' % os.getpid())    # one path, written over and over (files of equal size within one second included)
    fail = None
    with open(path, 'wb') as f:
        f.write(bytes(case))
    try:
        ms = mido.read_syx_file(path)
        out = [0] + pc.msgs_out(ms)
        tag = 'read:ok'
        kept = list(ms)
        ms.reverse()
        del ms[1:]
        if [m.bytes() for m in mido.read_syx_file(path)] != [m.bytes() for m in kept]:
            fail = ('result-shared', 'after the list returned by read_syx_file was edited by its caller, reading the unchanged file %r again gives something else' % (bytes(case)[:40],))
        ms = kept
        if not all(m.type == 'sysex' for m in ms):
            fail = ('non-sysex-returned', 'read of %r returned %r' % (bytes(case), ms))
        elif case and case[0] != 0xf0:
            toks = bytes(case).decode('latin1').split()
            import re
            if all(re.fullmatch(r'(?:[0-9A-Fa-f]{2})+', t) for t in toks):
                try:
                    want = [m.bytes() for m in mido.parser.parse_all(bytes.fromhex(''.join(toks))) if m.type == 'sysex']
                except Exception:  # noqa: BLE001
                    want = None
                if want is not None and [m.bytes() for m in ms] != want:
                    fail = ('text-read-wrong', 'the text %r denotes %d sysex message(s) but %d were read (or with other content)' % (bytes(case).decode('latin1')[:60], len(want), len(ms)))
        if fail is None and case and case[0] == 0xf0:
            # binary: the file is a MIDI byte stream; what comes back is its sysex messages, whatever else stands between them
            try:
                want = [m.bytes() for m in mido.parser.parse_all(case) if m.type == 'sysex']
            except Exception:  # noqa: BLE001
                want = None
            if want is not None and [m.bytes() for m in ms] != want:
                fail = ('binary-read-wrong', 'the binary file %r holds %d sysex message(s) but %d were read (or with other content)' % (bytes(case)[:40], len(want), len(ms)))
        if fail is None and case and case[0] != 0xf0:
            # plain text: every byte is a 2-digit hex number, so every maximal run of hex digits has even length
            import re
            txt = bytes(case).decode('latin1')
            if any(len(run) % 2 for run in re.findall(r'[0-9A-Fa-f]+', txt)):
                fail = ('odd-hex-run-accepted', 'the text %r holds a byte that is not a 2-digit hex number but was read as %r' % (txt[:80], ms[:3]))
    except ValueError:
        out = [-1, 1]
        tag = 'read:ValueError'
        # the statement, the other way round: hex bytes separated by ANY whitespace are a valid text file
        if case and case[0] != 0xf0:
            import re
            toks = bytes(case).decode('latin1').split()        # str.split(): every character str.isspace() holds for
            if all(re.fullmatch(r'(?:[0-9A-Fa-f]{2})+', t) for t in toks):
                raw = bytes.fromhex(''.join(toks))
                try:
                    want = [m for m in mido.parser.parse_all(raw) if m.type == 'sysex']
                    fail = ('rejects-valid-text', 'the text %r is two-digit hex bytes separated by whitespace (%s) and denotes %d sysex message(s), but reading it raised ValueError'
                            % (bytes(case).decode('latin1')[:60], ', '.join(sorted({repr(c) for c in bytes(case).decode('latin1') if c.isspace()})), len(want)))
                except Exception:  # noqa: BLE001  (the bytes themselves are not a valid stream: ValueError is right)
                    pass
    except Exception as e:  # noqa: BLE001
        out = [-1, core.exn_code(e)]
        tag = 'read:other'
        fail = ('read-raises:' + type(e).__name__, 'read of %r raised %r' % (bytes(case), e))
    return out, fail, tag


SCRATCH = None


def job(j):
    tag, cases = j
    if tag == 'write':
        return tag, core.eval_cases(COMP_WRITE, cases, impl_write, repeat=30)
    return tag, core.eval_cases(COMP_READ, cases, impl_read, repeat=30)


def layout_text(rng, bs, bad=False):
    t = rng.choice(WS)
    for b in bs:
        h = '%02X' % b if rng.random() < 0.7 else '%02x' % b
        t += h + rng.choice(WS) * rng.randrange(0, 3)
    if bad:
        k = rng.randrange(7)
        if k >= 5 and len(bs) >= 2:
            # the two digits of one byte (k == 5), or of two neighbouring bytes (k == 6), pulled apart by whitespace: 'F0 0 1 F7', 'F0 1 2 F7'
            toks = ['%02X' % b for b in bs]
            j = rng.randrange(len(toks) - 1)
            w = rng.choice([' ', '\n', '\t', '  '])
            if k == 5:
                toks[j] = toks[j][0] + w + toks[j][1]
            else:
                toks[j] = toks[j][1]; toks[j + 1] = toks[j + 1][1]
            t = ' '.join(toks)
        else:
            k = k % 5
            pos = rng.randrange(len(t) + 1)
            t = t[:pos] + ['g', '0', 'F0F', ',', '0x'][k] + t[pos:]
    return [ord(c) for c in t]


def big_files(out, rng):
    """files far larger than any buffer a reader might use (implementation against the statement; too large for the extracted model's
    quadratic parser): written by write_syx_file in both formats, and text laid out by hand, then read back"""
    import mido
    sizes = [3000, 5461, 10922, 21844, 21845, 21846, 30000, 43690, 70000] + ([150000, 400000, 1000000] if out.tier == 'thorough' else [])
    n = 0
    for total in sizes:
        for shape in ('one', 'many'):
            if shape == 'one':
                msgs = [mido.Message('sysex', data=[rng.randrange(128) for _ in range(total - 2)])]
            else:
                msgs, left = [], total
                while left > 0:
                    k = min(left, rng.choice([2, 3, 3, 10, 100, 1000]))
                    msgs.append(mido.Message('sysex', data=[rng.randrange(128) for _ in range(max(0, k - 2))])); left -= max(2, k)
            raw = b''.join(bytes(m.bytes()) for m in msgs)
            files = []
            for plaintext in (False, True):
                path = os.path.join(SCRATCH, 'big_%d_%s_%d.syx' % (total, shape, plaintext))
                try:
                    mido.write_syx_file(path, msgs, plaintext=plaintext)
                    files.append(('write_syx_file(plaintext=%r)' % plaintext, path))
                except Exception as e:  # noqa: BLE001
                    out.failures.append(('big-write-raises', 'write_syx_file(plaintext=%r) of %d message bytes (%d messages) raised %r' % (plaintext, len(raw), len(msgs), e),
                                         {'component': 'big', 'total': total, 'shape': shape}))
            for sep in (' ', '\n', '', ' \r\n', '\t '):
                path = os.path.join(SCRATCH, 'bigt_%d_%s_%d.syx' % (total, shape, len(files)))
                with open(path, 'wb') as f:
                    f.write(sep.join('%02X' % b for b in raw).encode('ascii'))
                files.append(('text with separator %r' % sep, path))
            for label, path in files:
                n += 1
                try:
                    back = mido.read_syx_file(path)
                    if [m.bytes() for m in back] != [m.bytes() for m in msgs]:
                        out.failures.append(('big-roundtrip', 'a file of %d message bytes in %d sysex messages (%s, %d bytes on disk) is read back as %d messages%s'
                                             % (len(raw), len(msgs), label, os.path.getsize(path), len(back),
                                                '' if len(back) != len(msgs) else ' with different content'), {'component': 'big', 'total': total, 'shape': shape, 'file': label}))
                except Exception as e:  # noqa: BLE001
                    out.failures.append(('big-read-raises', 'reading a valid file of %d message bytes in %d sysex messages (%s, %d bytes on disk) raised %r'
                                         % (len(raw), len(msgs), label, os.path.getsize(path), e), {'component': 'big', 'total': total, 'shape': shape, 'file': label}))
                os.remove(path)
    out.components['big files (implementation against the statement)'] = {'cases': n, 'message_bytes': sizes}
    out.evaluations += n


def run(out):
    global SCRATCH
    rng = random.Random(out.seed)
    SCRATCH = tempfile.mkdtemp(prefix='verif_c19_')
    try:
        n = 1000 if out.tier == 'quick' else 10000
        wcases, rcases = [], []
        for i in range(n):
            k = rng.randrange(0, 6)
            ms = []
            for _ in range(k):
                if rng.random() < 0.6:
                    ln = rng.choice([0, 0, 1, 2, 5, 127, 128, rng.randrange(6000) if rng.random() < 0.25 else rng.randrange(40)])
                    ms.append([7, ln] + [rng.randrange(128) for _ in range(ln)])
                else:
                    m = canon.random_message(rng, sysex_max=3)
                    ms.append(m)
            wcases.append([rng.randrange(2), len(ms)] + [x for m in ms for x in m])
        wcases += [[0, 0], [1, 0], [0, 1, 7, 0], [1, 1, 7, 0], [1, 2, 1, 0, 1, 2, 12]]
        for i in range(n):
            ms = [[7, ln] + [rng.randrange(128) for _ in range(ln)] for ln in [rng.choice([0, 1, 3, 20, 20, rng.randrange(3000)]) for _ in range(rng.randrange(0, 4))]]
            bs = [b for m in ms for b in canon.std_layout(m)]
            if rng.random() < 0.3:
                bs = bs[:max(0, len(bs) - rng.randrange(0, 3))] + canon.std_layout(canon.random_message(rng, sysex_max=2))
            r = rng.random()
            if r < 0.35:
                rcases.append(bs)                                     # binary
            elif r < 0.8:
                rcases.append(layout_text(rng, bs))                   # text, any whitespace layout
            else:
                rcases.append(layout_text(rng, bs, bad=True))         # malformed text
        rcases += [[], [0x20], [0x0a], [0xf0], [0xf0, 0xf7], [0x46, 0x30], [0x46], [0xf7], list(b'F0 F7'), list(b'F0 01 F7\n\n'), list(b'zz'),
                   list(b'F0 0 F7'), [0xa0] + list(b'F0F7'), list('ðF0'.encode('latin1'))]
        rcases += [list(b'F0 1 2 F7'), list(b'F0 01 0\n2 F7'), list(b'F 0 F7'), list(b'F0 0 1 F7 '), list(b'F0 0\t1 F7'), list(b'F0  1  2  3  4 F7')]
        # very many messages in one file (nothing may be dropped), both formats
        for count in ([4097, 5000] if out.tier == 'quick' else [4095, 4096, 4097, 5000, 8193, 20000]):
            wcases.append([0, count] + [7, 1, 5] * count)
            wcases.append([1, count] + [7, 1, 6] * count)
            rcases.append([0xf0, 5, 0xf7] * count)
            rcases.append(list(b'F0 06 F7\n' * count))
        jobs = pc.chunk_jobs(wcases, 'write', COMP_WRITE, 8) + pc.chunk_jobs(rcases, 'read', COMP_READ, 8)
        jobs = [(t, c) for t, _, c in jobs]
        for tag, rec in core.pmap(job, jobs):
            core.merge_into(out, rec, tag)
        big_files(out, rng)
    finally:
        shutil.rmtree(SCRATCH, ignore_errors=True)
    out.rule = ('write_syx_file to a real file (binary and plain text) for %d message lists (sysex payloads 0..6000 bytes, long ones in both formats, interleaved non-sysex '
                'messages, empty list): file bytes compared with the model, and read_syx_file(file) must return exactly the sysex messages; '
                'read_syx_file on %d files: binary, text with random whitespace layouts (space, tab, CR, LF, VT, FF, FS..US, NEL, NBSP, none) and '
                'either letter case, truncated / mixed content, malformed hex; files of 3000 .. 70000 message bytes (thorough: up to 1000000), one sysex or many, written in both formats and laid out by hand with five separators, read back. Non-trivial: non-zero content; distinct by content.' % (len(wcases), len(rcases)))
    out.sample({'component': 'write', 'case': wcases[3][:30]})
    out.sample({'component': 'read', 'case': rcases[1][:40]})
    core.kernel_crosscheck(out, [(COMP_WRITE, c) for c in wcases[:60] if len(c) < 200] + [(COMP_READ, c) for c in rcases[:140] if len(c) < 300], 'C19')
    out.assumptions += ['file system: open/read/write of a regular file behave as byte-exact storage; text mode newline translation is the identity (POSIX)']
