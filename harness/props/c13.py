"""C13 — playback timing follows the tempo map."""
import math
import random
from fractions import Fraction

import core

THEOREMS_DEPEND_ON = ['Gen/AgreeMeta.v']
COMP_ITER, COMP_PLAY = 70, 71
FMOD, FFN = 'Mido.Model.TempoFloat', 'run_tempo_float'


def fbits(x):
    """a Python float as [sign, mantissa, exponent] with x = (-1)^sign * mantissa * 2^exponent, mantissa < 2^53"""
    if isinstance(x, int) and not isinstance(x, bool):
        x = float(x)
    if x != x or x in (float('inf'), float('-inf')):
        return [9, 0, 0]
    if x == 0:
        return [0, 0, 0]
    m, e = math.frexp(abs(x))
    return [1 if x < 0 else 0, int(m * 2 ** 53), e - 53]


def meta_of(mido, meta, label, dt):
    """a meta message that is no tempo change: whatever it says (a time signature in eighths or halves, a key, an SMPTE offset), the tempo
    map is made of set_tempo messages alone"""
    if meta == 2:
        n = len(label)
        return mido.MetaMessage('time_signature', numerator=[6, 2, 3, 12, 7][n % 5], denominator=[8, 2, 16, 8, 1][n % 5], time=dt)
    if meta == 3:
        return mido.MetaMessage('key_signature', key=['C', 'F#m', 'Bb'][len(label) % 3], time=dt)
    if meta == 4:
        return mido.MetaMessage('smpte_offset', frame_rate=25, hours=1, minutes=2, seconds=3, frames=4, time=dt)
    return mido.MetaMessage('marker', text=label, time=dt)


def mkfile(tpb, evs, ntracks=1, typ=1):
    """evs: list of (dt, tempo or -1, meta?) for ONE merged stream; spread over tracks is done by the caller when wanted"""
    import mido
    mf = mido.MidiFile(type=typ, ticks_per_beat=tpb)
    tr = mido.MidiTrack()
    for i, (dt, tempo, meta) in enumerate(evs):
        if tempo >= 0:
            tr.append(mido.MetaMessage('set_tempo', tempo=tempo, time=dt))
        elif meta:
            tr.append(meta_of(mido, meta, str(i), dt))
        else:
            tr.append(mido.Message('note_on', note=i % 128, velocity=(i // 128) % 128, time=dt))
    mf.tracks.append(tr)
    return mf


def mkfile_tracks(tpb, tracks_evs, typ=1):
    import mido
    mf = mido.MidiFile(type=typ, ticks_per_beat=tpb)
    for ti, evs in enumerate(tracks_evs):
        tr = mido.MidiTrack()
        for i, (dt, tempo, meta) in enumerate(evs):
            if tempo >= 0:
                tr.append(mido.MetaMessage('set_tempo', tempo=tempo, time=dt))
            elif meta:
                tr.append(meta_of(mido, meta, '%d:%d' % (ti, i), dt))
            else:
                tr.append(mido.Message('note_on', channel=ti % 16, note=i % 128, velocity=(i // 128) % 128, time=dt))
        mf.tracks.append(tr)
    return mf


def merged_stream(tracks_evs):
    """the merged stream of several tracks, written independently: absolute ticks, ties in track order then in-track order"""
    evs = []
    for ti, tr in enumerate(tracks_evs):
        now = 0
        for j, (dt, tempo, meta) in enumerate(tr):
            now += dt
            evs.append((now, ti, j, tempo, meta))
    evs.sort(key=lambda e: e[:3])
    out, prev = [], 0
    for (a, _, _, tempo, meta) in evs:
        out.append((a - prev, tempo, meta))
        prev = a
    return out


def split_tracks(rng, evs):
    """several tracks whose events fall on few distinct ticks, so that tempo changes of different tracks meet on one tick"""
    nt = rng.choice([2, 2, 3, 5])
    tracks = [[] for _ in range(nt)]
    for (dt, tempo, meta) in evs:
        tracks[rng.randrange(nt)].append((rng.choice([0, 0, 0, 1, 96, dt]), tempo, meta))
    return tracks


def random_events(rng, n=None, tempos=True):
    n = rng.randrange(1, 40) if n is None else n
    evs = []
    for _ in range(n):
        dt = rng.choice([0, 0, 1, 2, 10, 96, 480, 1000, 65535, rng.randrange(100000)])
        r = rng.random()
        if tempos and r < 0.25:
            evs.append((dt, rng.choice([0, 1, 2, 250000, 500000, 500000, 600000, 16777215, rng.randrange(16777216)]), 1))
        elif r < 0.4:
            evs.append((dt, -1, rng.choice([1, 1, 2, 2, 3, 4])))
        else:
            evs.append((dt, -1, 0))
    return evs


class FakeClock:
    def __init__(self, start, oversleep):
        self.t = start
        self.sleeps = []
        self.oversleep = list(oversleep)

    def now(self):
        return self.t

    def sleep(self, d):
        self.sleeps.append(d)
        self.t += d + (self.oversleep.pop(0) if self.oversleep else 0.0)


def consumer_edits(x):
    """what is yielded belongs to the consumer: it gives the message another tempo / value and another time before asking for the next one"""
    try:
        if x.type == 'set_tempo':
            x.tempo = (x.tempo + 99999) % 16777216
        elif x.type == 'note_on':
            x.velocity = (x.velocity + 1) % 128
        x.time = 0
    except Exception:  # noqa: BLE001
        pass


def run_play(mf, meta_messages, start, holds, oversleep, poke=None, late_start=0.0, poke_msg=None):
    """real play() against a scripted clock; returns [(message, clock at yield)]"""
    import mido.midifiles.midifiles as mm
    clock = FakeClock(start, oversleep)

    class T:
        sleep = staticmethod(clock.sleep)
        time = staticmethod(clock.now)
    saved = mm.time
    mm.time = T
    try:
        res = []
        holds = list(holds)
        player = mf.play(meta_messages=meta_messages, now=clock.now)
        clock.t += late_start              # time passes between making the player and starting to iterate it: playback starts at the first next()
        for msg in player:
            res.append((msg, clock.t))
            if poke is not None:
                poke()
            if poke_msg is not None:
                res[-1] = (msg.copy(), clock.t)
                poke_msg(msg)
            clock.t += holds.pop(0) if holds else 0.0
        return res, clock
    finally:
        mm.time = saved


def check_file(rng, tpb, evs):
    """oracle on the implementation + data for the model comparisons; returns (failure, float case, iter case, outputs)"""
    import mido
    if rng.random() < 0.5:
        tracks_evs = split_tracks(rng, evs)
        evs = merged_stream(tracks_evs)
        mf = mkfile_tracks(tpb, tracks_evs)
    else:
        mf = mkfile(tpb, evs)
    msgs = list(mf)
    # exact tempo-map integral, independently: Fractions
    tempo, acc, exact = 500000, Fraction(0), []
    for dt, t, _ in evs:
        acc += Fraction(dt * tempo, 1000000 * tpb)
        exact.append(acc)
        if t >= 0:
            tempo = t
    # the merged track ends with end_of_track: one more message at delta 0
    if len(msgs) != len(evs) + 1:
        return ('iter-count', 'iteration yields %d messages for %d events' % (len(msgs), len(evs)))
    cum = Fraction(0)
    for i, m in enumerate(msgs[:-1]):
        cum += Fraction(m.time)
        tol = Fraction(i + 2, 2 ** 50) * max(exact[i], Fraction(1, 10 ** 12))
        if abs(cum - exact[i]) > tol:
            return ('integral', 'message %d of %r (tpb %d): cumulative time %r, tempo-map integral %r' % (i, evs[:i + 1][-4:], tpb, float(cum), float(exact[i])))
    ln = mf.length
    if abs(Fraction(ln) - exact[-1]) > Fraction(len(evs) + 2, 2 ** 50) * max(exact[-1], Fraction(1, 10 ** 12)):
        return ('length', 'length %r but the last message is at %r' % (ln, float(exact[-1])))
    # a consumer that edits every message it is handed (tempo, value, time) before asking for the next one: the times are those of the file
    got0 = []
    for x in mf:
        got0.append((x.type, x.time))
        consumer_edits(x)
    again = [(x.type, x.time) for x in mf]
    if got0 != [(x.type, x.time) for x in msgs] or again != got0:
        k = next((i for i, (x, y) in enumerate(zip(got0, msgs)) if x != (y.type, y.time)), 0)
        return ('iter-consumer-edits', 'when the consumer edits each message it is handed, iteration yields %r from message %d on; a read-only consumer gets %r; the next iteration %r (tpb %d)'
                % (got0[k:k + 3], k, [(x.type, x.time) for x in msgs[k:k + 3]], again[k:k + 3], tpb))
    # iterations of one file are independent of each other and of length: interleave two iterations and reads of length
    it1, it2, got1, got2 = iter(mf), None, [], []
    for k in range(len(msgs)):
        got1.append(next(it1))
        r = rng.random()
        if r < 0.3:
            if mf.length != ln:
                return ('length-unstable', 'length read during an iteration is %r, before it %r' % (mf.length, ln))
        elif r < 0.6:
            if it2 is None:
                it2 = iter(mf)
            for _ in range(rng.randrange(0, 3)):
                x = next(it2, None)
                if x is not None:
                    got2.append(x)
    if it2 is not None:
        got2 += list(it2)
    for name, got in (('an iteration interleaved with another iteration and reads of length', got1), ('a second iteration started during the first', got2)):
        if got is got2 and it2 is None:
            continue
        if [(x.type, x.time) for x in got] != [(x.type, x.time) for x in msgs]:
            k = next((i for i, (x, y) in enumerate(zip(got, msgs)) if (x.type, x.time) != (y.type, y.time)), min(len(got), len(msgs)))
            return ('iter-interleaved', '%s yields %r at message %d, a lone iteration %r (tpb %d)'
                    % (name, [(x.type, x.time) for x in got[k:k + 2]], k, [(x.type, x.time) for x in msgs[k:k + 2]], tpb))
    # the same object after its tempo map was edited in place (same number of messages): times must follow the map it has NOW
    edited = False
    for tr in mf.tracks:
        for m in tr:
            if m.type == 'set_tempo':
                m.tempo = 123457 if m.tempo != 123457 else 654321
                edited = True
                break
            if m.time:
                m.time = m.time + 7
                edited = True
                break
        if edited:
            break
    if edited:
        fresh = mido.MidiFile(type=mf.type, ticks_per_beat=mf.ticks_per_beat, tracks=[mido.MidiTrack(x.copy() for x in tr) for tr in mf.tracks])
        a = [(x.type, x.time) for x in mf]
        b = [(x.type, x.time) for x in fresh]
        if a != b or mf.length != fresh.length:
            return ('stale-after-edit', 'after an in-place edit of a message the file yields times %r (length %r); a new file with the same contents yields %r (length %r)'
                    % (a[:6], mf.length, b[:6], fresh.length))
    return None


def check_play(rng, tpb, evs):
    mf = mkfile_tracks(tpb, split_tracks(rng, evs)) if rng.random() < 0.5 else mkfile(tpb, evs)
    sched, acc = [], 0.0
    for m in mf:
        acc += m.time
        sched.append((m, acc))
    for mmf in (False, True):
        start = rng.choice([0.0, 1000.0, 12345.678])
        holds = [rng.choice([0.0, 0.0, 0.001, 0.5, 3.0]) for _ in range(len(sched))]
        over = [rng.choice([0.0, 0.0, 0.0001, 0.01]) for _ in range(len(sched))]
        res, clock = run_play(mf, mmf, start, holds, over)
        want = [(m, s) for (m, s) in sched if mmf or not m.is_meta]
        if [repr(m) for m, _ in res] != [repr(m) for m, _ in want]:
            return ('play-filter', 'play(meta_messages=%r) yielded %d messages, iteration has %d to yield' % (mmf, len(res), len(want)))
        for (m, t), (_, s) in zip(res, want):
            if t < start + s - 1e-9 * max(1.0, start + s):
                return ('play-early', 'a message scheduled at +%r was yielded at +%r (clock start %r)' % (s, t - start, start))
        # no drift: exact sleeps
        res0, clock0 = run_play(mf, mmf, start, holds, [])
        prev_back = start
        for (m, t), (_, s), h in zip(res0, want, holds):
            expect = max(start + s, prev_back)
            # metas that are not yielded can only delay through their own sleeps, which never pass start + sched
            if abs(t - expect) > 1e-6 * max(1.0, abs(expect)) and not (not mmf and t <= max(start + s, prev_back) + 1e-6 and t >= start + s - 1e-6):
                return ('play-drift', 'with exact sleeps a message scheduled at +%r was yielded at +%r; consumer came back at +%r' % (s, t - start, prev_back - start))
            prev_back = t + h
        # the player is made, time passes, then it is iterated: the schedule counts from the start of the iteration
        late = rng.choice([0.3, 1.2, 100.0])
        res2, _ = run_play(mf, mmf, start, holds, [], late_start=late)
        if [(repr(m), t - late) for m, t in res2] != [(repr(m), t) for m, t in res0]:
            k = next((i for i, (x, y) in enumerate(zip(res2, res0)) if (repr(x[0]), x[1] - late) != (repr(y[0]), y[1])), min(len(res2), len(res0)))
            if any(abs((x[1] - late) - y[1]) > 1e-6 * max(1.0, abs(y[1])) for x, y in zip(res2, res0)) or len(res2) != len(res0):
                return ('play-late-start', 'a player made %r s before it was iterated yields message %d at +%r after the start of the iteration, a player iterated at once at +%r'
                        % (late, k, res2[k][1] - late - start if k < len(res2) else None, res0[k][1] - start if k < len(res0) else None))
        # the consumer edits every message it is handed before asking for the next one: playback must not notice
        res3, _ = run_play(mf, mmf, start, holds, [], poke_msg=consumer_edits)
        if [(repr(m), t) for m, t in res3] != [(repr(m), t) for m, t in res0]:
            k = next((i for i, (x, y) in enumerate(zip(res3, res0)) if (repr(x[0]), x[1]) != (repr(y[0]), y[1])), min(len(res3), len(res0)))
            return ('play-consumer-edits', 'when the consumer edits each message it is handed, play(meta_messages=%r) yields message %d as %r at +%r instead of %r at +%r'
                    % (mmf, k, res3[k][0] if k < len(res3) else None, res3[k][1] - start if k < len(res3) else None, res0[k][0] if k < len(res0) else None, res0[k][1] - start if k < len(res0) else None))
        # the consumer reads length (and starts an iteration) between messages: playback must not notice
        res1, _ = run_play(mf, mmf, start, holds, [], poke=lambda: (mf.length, next(iter(mf), None)))
        if [(repr(m), t) for m, t in res1] != [(repr(m), t) for m, t in res0]:
            k = next((i for i, (x, y) in enumerate(zip(res1, res0)) if (repr(x[0]), x[1]) != (repr(y[0]), y[1])), min(len(res1), len(res0)))
            return ('play-interleaved', 'when the consumer reads length between messages, play() yields message %d at +%r instead of +%r'
                    % (k, res1[k][1] - start if k < len(res1) else None, res0[k][1] - start if k < len(res0) else None))
    return None


def job(j):
    kind, seed, n = j
    rng = random.Random(seed)
    rec = {'n': 0, 'dis': [], 'fail': [], 'dist': {}, 'hashes': set(), 'ndis': 0, 'nfail': 0, 'float_cases': [], 'float_impl': []}
    for i in range(n):
        tpb = rng.choice([1, 2, 96, 480, 960, 32767, rng.randrange(1, 32768)])
        evs = random_events(rng)
        fail = check_file(rng, tpb, evs) if kind == 'iter' else check_play(rng, tpb, evs)
        rec['n'] += 1
        rec['hashes'].add(hash((tpb, tuple(evs))))
        rec['dist'][kind] = rec['dist'].get(kind, 0) + 1
        if fail:
            rec['nfail'] += 1
            if len(rec['fail']) < 10:
                rec['fail'].append((fail[0], fail[1], {'component': kind, 'tpb': tpb, 'events': evs}))
    return kind, rec


def float_cases(rng, n):
    """inputs for the binary64 model and the implementation's answers, compared bit for bit"""
    import mido
    cases, impl = [], []
    for _ in range(n):
        tick = rng.choice([0, 1, 7, 96, 480, 123456, 2 ** 31, 2 ** 40 + 1, rng.randrange(2 ** 32)])
        tpb = rng.choice([1, 96, 480, 960, 32767, rng.randrange(1, 32768)])
        tempo = rng.choice([1, 2, 250000, 500000, 123457, 16777215, rng.randrange(1, 16777216)])
        cases.append([0, tick, tpb, tempo]); impl.append(fbits(mido.tick2second(tick, tpb, tempo)))
        cases.append([3, tick, tpb, tempo]); impl.append([0, mido.second2tick(mido.tick2second(tick, tpb, tempo), tpb, tempo)])
        sec = rng.choice([0.0, 0.5, 1.5, 2.5, 0.001, 1e-9, 12345.678, rng.random() * 1000])
        s, m, e = fbits(sec)
        cases.append([1, s, m, e, tpb, tempo]); impl.append([0, mido.second2tick(sec, tpb, tempo)])
        # bpm2tempo / tempo2bpm (units.py), with and without a time signature
        den = rng.choice([4, 4, 2, 8, 16, 1])
        bpm = rng.choice([120, 60, 90.5, 33.333, 1, 240, 119.99, rng.randrange(1, 1000), rng.random() * 400 + 0.5])
        s, m, e = fbits(float(bpm))
        cases.append([4, s, m, e, den]); impl.append([0, mido.bpm2tempo(bpm, (3, den))])
        tempo_ = rng.choice([500000, 250000, 1, 16777215, rng.randrange(1, 16777216)])
        cases.append([5, tempo_, den]); impl.append(fbits(mido.tempo2bpm(tempo_, (3, den))))
    for _ in range(n // 4):
        tpb = rng.choice([96, 480, 960, rng.randrange(1, 32768)])
        evs = random_events(rng, rng.randrange(1, 12))
        mf = mkfile(tpb, evs)
        c = [2, tpb, len(evs)]
        for dt, t, _ in evs:
            c += [dt, t]
        out, acc, sums = [], 0.0, []
        for m in list(mf)[:-1]:
            if isinstance(m.time, int):
                out += [0]
            else:
                out += [1] + fbits(m.time)
            acc += m.time
            sums += fbits(acc)
        cases.append(c); impl.append(out + [-9] + sums)
    return cases, impl


def run(out):
    rng = random.Random(out.seed)
    import mido
    n = 40 if out.tier == 'quick' else 600
    jobs = [('iter', out.seed * 7 + k, n) for k in range(core.NPROC)] + [('play', out.seed * 11 + k, max(5, n // 4)) for k in range(core.NPROC)]
    for tag, rec in core.pmap(job, jobs):
        core.merge_into(out, rec, tag)
    # exact model vs the implementation's floats (tolerance), through the extracted model
    batch = []
    for _ in range(300 if out.tier == 'quick' else 3000):
        tpb = rng.choice([1, 96, 480, rng.randrange(1, 32768)])
        evs = random_events(rng)
        c = [len(evs)]
        for dt, t, mt in evs:
            c += [dt, t, mt]
        batch.append((tpb, evs, c))
    mos = core.model_run([(COMP_ITER, c) for _, _, c in batch])
    for (tpb, evs, c), mo in zip(batch, mos):
        nums, total = mo[1:1 + mo[0]], mo[-1]
        mf = mkfile(tpb, evs)
        ds = [m.time for m in list(mf)[:-1]]
        for i, (d, num) in enumerate(zip(ds, nums)):
            ex = Fraction(num, 1000000 * tpb)
            if abs(Fraction(d) - ex) > Fraction(4, 2 ** 52) * max(ex, Fraction(1, 10 ** 15)):
                out.disagreements.append((COMP_ITER, c, [i, d], [num]))
                break
        if abs(Fraction(mf.length) - Fraction(total, 1000000 * tpb)) > Fraction(len(evs) + 4, 2 ** 50) * max(Fraction(total, 1000000 * tpb), Fraction(1, 10 ** 12)):
            out.disagreements.append((COMP_ITER, c, ['length', mf.length], [total]))
    out.evaluations += len(batch)
    out.components['exact-model-vs-floats (tolerance n*2^-50)'] = {'cases': len(batch)}
    # play: exact model vs real play() on dyadic times (default tempo, ticks_per_beat a power of two: all float operations exact)
    pb = []
    for _ in range(200 if out.tier == 'quick' else 2000):
        k = rng.choice([0, 1, 5, 9])
        tpb = 2 ** k
        evs = random_events(rng, rng.randrange(1, 15), tempos=False)
        evs = [(dt % 4096, -1, mt) for dt, _, mt in evs]
        mf = mkfile(tpb, evs)
        start = rng.choice([0, 2 ** 20, 5 * 2 ** 19])
        holds = [rng.choice([0, 0, 2 ** 10, 2 ** 19, 3 * 2 ** 20]) for _ in range(len(evs) + 1)]
        eps = [rng.choice([0, 0, 2 ** 5, 2 ** 12]) for _ in range(len(evs) + 1)]
        for mmf in (0, 1):
            res, clock = run_play(mf, bool(mmf), start / 2 ** 20, [h / 2 ** 20 for h in holds], [e / 2 ** 20 for e in eps])
            seq = list(mf)
            idx = [i for i, m in enumerate(seq) if mmf or not m.is_meta]
            io = [len(res)]
            for i, (m, t) in zip(idx, res):
                io += [i, int(round(t * 2 ** 20))]
            c = [mmf, start, len(seq)]
            for m in seq:
                c += [int(round(m.time * 2 ** 20)), 1 if m.is_meta else 0]
            c += [len(eps)] + eps + [len(holds)] + holds
            pb.append((c, io))
    mos = core.model_run([(COMP_PLAY, c) for c, _ in pb])
    for (c, io), mo in zip(pb, mos):
        if io != mo:
            out.disagreements.append((COMP_PLAY, c, io, mo))
    out.evaluations += len(pb)
    out.components['play (exact model vs real play on dyadic times)'] = {'cases': len(pb)}
    # binary64 model, bit for bit, evaluated by the kernel
    fc, fi = float_cases(rng, 300 if out.tier == 'quick' else 4000)
    fm = core.kernel_call(FMOD, FFN, fc, 'C13')
    nd = 0
    for c, a, b in zip(fc, fi, fm):
        if a != b:
            nd += 1
            out.disagreements.append(('float', c, a, b))
    out.evaluations += len(fc)
    out.components['binary64 model, bit-exact, kernel vm_compute'] = {'cases': len(fc), 'disagreements': nd}
    # type 2 refuses iteration, length and play
    mf2 = mkfile(96, [(1, -1, 0)], typ=2)
    for what, fn in (('iteration', lambda: list(mf2)), ('length', lambda: mf2.length), ('play', lambda: list(mf2.play(now=lambda: 0.0)))):
        try:
            fn()
            out.failures.append(('type2-' + what, 'a type 2 file allows ' + what, {'component': 'type2'}))
        except (TypeError, ValueError):
            pass
    # the inverse on integer ticks: holds below 2**50; beyond binary64 cannot represent the tick (known finding)
    for n_ in [0, 1, 2, 1000, 2 ** 31, 2 ** 49 + 1] + [rng.randrange(2 ** 50) for _ in range(2000)]:
        tpb = rng.randrange(1, 32768); tempo = rng.randrange(1, 16777216)
        back = mido.second2tick(mido.tick2second(n_, tpb, tempo), tpb, tempo)
        out.evaluations += 1
        if back != n_:
            out.failures.append(('inverse', 'second2tick(tick2second(%d, %d, %d)) = %d' % (n_, tpb, tempo, back), {'component': 'inverse', 'case': [n_, tpb, tempo]}))
    # ... for ANY positive tempo: also where a tick lasts less than a microsecond (tempo below ticks_per_beat), the corner in which a
    # conversion that rounds to whole microseconds on the way loses ticks
    for n_ in (1, 2, 3, 7, 100, 12345, 2 ** 20 + 1):
        for tempo in (1, 2, 3, 10, 100, 500, 999, 1000, 60000, 16777215):
            for tpb in (1, 2, 96, 480, 960, 32767):
                back = mido.second2tick(mido.tick2second(n_, tpb, tempo), tpb, tempo)
                out.evaluations += 1
                if back != n_:
                    out.failures.append(('inverse', 'second2tick(tick2second(%d, %d, %d)) = %d' % (n_, tpb, tempo, back), {'component': 'inverse', 'case': [n_, tpb, tempo]}))
    big = 2 ** 53 + 1
    if mido.second2tick(mido.tick2second(big, 480, 500000), 480, 500000) != big:
        out.failures.append(('second2tick.ticks>=2**53', 'second2tick(tick2second(2**53+1, 480, 500000)) != 2**53+1', {'component': 'inverse', 'case': [big, 480, 500000]}))
    out.rule = ('generated merged streams (1-39 messages, deltas 0..100000 ticks, set_tempo at random positions incl. tempo 0, 1, 2, 16777215, '
                'ticks_per_beat 1..32767; half of them spread over 2-5 tracks with few distinct ticks, so that tempo changes of different tracks share a tick): cumulative iteration time against the exact tempo-map integral (Fractions) and length; the exact Coq '
                'model compared with the floats within n*2^-50; the binary64 Coq model compared BIT FOR BIT (tick2second, second2tick, iteration '
                'deltas, running sum) by kernel vm_compute; play() on a scripted clock with consumer holds and oversleeps (never early, no drift, '
                'meta filter; two iterations of one file and reads of length interleaved, play() with a consumer that reads length) and compared exactly with the model on dyadic times; type 2 refusal; the inverse on 2000 random ticks below 2**50. '
                'Non-trivial: every generated stream; distinct by content.')
    out.sample({'component': 'float', 'case': fc[0], 'implementation': fi[0]})
    out.sample({'component': 'iter', 'events': random_events(random.Random(1), 6)})
    out.assumptions += ['real sleeping and the system clock are replaced by a scripted clock (the clock only moves through sleeps, oversleeps and consumer holds)',
                        'MidiFile.length uses the builtin sum (compensated in CPython 3.12), so it is compared with the exact value within n*2^-50, never bit for bit',
                        'exact theorems are over rationals; binary64 rounding is covered by the bit-exact kernel-evaluated model (a test, not a theorem)']
