"""C17 — text encoding follows the file charset and never leaks out of a call."""
import io
import random

import core
from props import smf_common as sc

THEOREMS_DEPEND_ON = ['Gen/AgreeMeta.v']
CHARSETS = ['latin1', 'utf-8', 'cp1252', 'shift_jis', 'utf-16', 'ascii', 'cp437', 'utf-32', 'koi8-r',
            'utf-16-le', 'utf-16-be', 'utf-32-be', 'utf-7']          # the last four are not supersets of ASCII: plain text encodes to other bytes
SAMPLES = ['', 'plain ascii', 'Piano 1', 'a+b-c', 'caf\u00e9 \u00fc\u00df', '\u20ac euro', '\u65e5\u672c\u8a9e \u30c6\u30b9\u30c8', '\u041f\u0440\u0438\u0432\u0435\u0442', 'x' * 200, '\u00ff\u0100', 'tab\there']


def charset_now():
    """a description of the charset in force, from behaviour alone (the library's private state is not read): how probe characters are encoded"""
    from mido.midifiles.meta import MetaMessage
    out = []
    for ch in ('\u00e9', '\u20ac', '\u0416'):
        try:
            out.append('%r -> %s' % (ch, bytes(MetaMessage('text', text=ch).bytes()[3:]).hex()))
        except Exception as e:  # noqa: BLE001
            out.append('%r -> %s' % (ch, type(e).__name__))
    return '; '.join(out)


EXTRA_TEXTS = []     # the texts of the file the last call worked on: they must be coded with latin1 elsewhere, too


def elsewhere_ok():
    """meta text encoded or decoded elsewhere in the process uses latin1 — for a fixed probe and for the very strings and payloads
    the last load/save handled (a stale per-string cache would show only there)"""
    from mido.midifiles.meta import MetaMessage, encode_variable_int
    try:
        if not (MetaMessage('text', text='\u00e9').bytes() == [0xff, 0x01, 0x01, 0xe9] and
                MetaMessage.from_bytes([0xff, 0x01, 0x01, 0xe9]).text == '\u00e9' and
                MetaMessage('text', text='\u0080\u00ff').bytes() == [0xff, 0x01, 0x02, 0x80, 0xff] and
                MetaMessage.from_bytes([0xff, 0x01, 0x02, 0x80, 0xa4]).text == '\u0080\u00a4'):
            return False
        for t, payload in EXTRA_TEXTS:
            try:
                want = list(t.encode('latin1'))
            except UnicodeError:
                want = None
            if want is not None and MetaMessage('text', text=t).bytes()[2 + len(encode_variable_int(len(want))):] != want:
                return False
            if len(payload) < 128 and MetaMessage.from_bytes([0xff, 0x01, len(payload)] + list(payload)).text != bytes(payload).decode('latin1'):
                return False
        return True
    except Exception:  # noqa: BLE001
        return False


_KEPT = []


def reset_charset():
    """after a leak was seen: put latin1 back in force for the cases that follow, through the library's own switch (entered and never left;
    kept alive so that no clean-up code of it ever runs)"""
    import mido.midifiles.meta as meta
    try:
        cm = meta.meta_charset('latin1')
        cm.__enter__()
        _KEPT.append(cm)
    except Exception:  # noqa: BLE001
        pass


def encodable(text, cs):
    try:
        return text.encode(cs).decode(cs) == text
    except (UnicodeError, LookupError):
        return False


def mkfile(cs, texts, bad_time_at=None, frozen=False):
    import mido
    mf = mido.MidiFile(type=1, charset=cs)
    tr = mido.MidiTrack()
    names = ['text', 'copyright', 'track_name', 'instrument_name', 'lyrics', 'marker', 'cue_marker', 'device_name']
    for i, t in enumerate(texts):
        n = names[i % len(names)]
        attr = 'name' if n in ('track_name', 'instrument_name', 'device_name') else 'text'
        tr.append(mido.MetaMessage(n, time=i, **{attr: t}))
        tr.append(mido.Message('note_on', note=60 + i % 10, time=1))
    if bad_time_at is not None and tr:
        k = bad_time_at % len(tr)
        tr[k] = tr[k].copy(time=0.5)
    if frozen:
        # immutable messages, whose encoding was already asked for once outside any file call (the default charset in force):
        # what a file writes is still the text in the FILE's charset
        from mido.frozen import freeze_message
        for k in range(len(tr)):
            tr[k] = freeze_message(tr[k])
            try:
                tr[k].bytes(); tr[k].hex(); hash(tr[k])
            except Exception:  # noqa: BLE001  (text the default charset cannot hold)
                pass
    mf.tracks.append(tr)
    return mf


def texts_of(mf):
    out = []
    for tr in mf.tracks:
        for m in tr:
            if m.is_meta and m.type != 'end_of_track':
                out.append(getattr(m, 'name', None) if hasattr(m, 'name') else m.text)
    return out


def check_roundtrip(cs, texts, frozen=False):
    EXTRA_TEXTS[:] = [(t, t.encode(cs)) for t in texts]
    """text survives save and load with the charset; the bytes in the file are the text encoded in that charset; the charset does not leak"""
    n = 0
    if not frozen:
        r, k = check_roundtrip(cs, texts, frozen=True)
        if r is not None:
            return (r[0], 'with frozen messages (encoded once before, outside the call): ' + r[1]), k
    mf = mkfile(cs, texts, frozen=frozen)
    buf = io.BytesIO()
    try:
        mf.save(file=buf)
    except Exception as e:  # noqa: BLE001
        return ('save-raises', 'save with charset %s of %r raised %r' % (cs, texts, e)), 1
    if not elsewhere_ok():
        reset_charset()
        return ('leak-after-save', 'after a successful save with charset %s meta text elsewhere no longer uses latin1' % cs), 1
    bs = buf.getvalue()
    pos = 0
    for t in texts:
        enc = t.encode(cs)
        k = bs.find(enc, pos) if enc else pos
        if k < 0:
            return ('payload-bytes', 'the file saved with charset %s does not contain %r encoded as %r' % (cs, t, enc)), 1
        pos = k + len(enc)
    import mido
    try:
        back = mido.MidiFile(file=io.BytesIO(bs), charset=cs)
    except Exception as e:  # noqa: BLE001
        reset_charset()
        return ('load-raises', 'load with charset %s of the file just saved raised %r' % (cs, e)), 2
    if not elsewhere_ok():
        reset_charset()
        return ('leak-after-load', 'after a successful load with charset %s meta text elsewhere no longer uses latin1' % cs), 2
    if texts_of(back) != list(texts):
        return ('text-roundtrip', 'texts %r came back as %r with charset %s' % (texts, texts_of(back), cs)), 2
    return None, 2


def failing_calls(rng, cs, texts):
    """every place a load or save can fail: truncation at EACH byte, an invalid data byte, undecodable text, a non-integer time in the
    n-th message, unencodable text; after each call the charset must be the default again"""
    import mido
    n = 0
    EXTRA_TEXTS[:] = [(t, t.encode(cs)) for t in texts]
    mf = mkfile(cs, texts)
    buf = io.BytesIO()
    mf.save(file=buf)
    bs = buf.getvalue()
    variants = [('truncate@%d' % k, bs[:k]) for k in range(len(bs))]
    for k in range(14, len(bs), max(1, len(bs) // 12)):
        b2 = bytearray(bs); b2[k] = 0xff if b2[k] != 0xff else 0xfe
        variants.append(('corrupt@%d' % k, bytes(b2)))
    bad = {'utf-8': b'\xff\xfe', 'ascii': b'\xe9', 'shift_jis': b'\x81', 'utf-16': b'\x00', 'utf-32': b'\x00\x01', 'cp1252': b'\x81'}.get(cs)
    if bad is not None:
        body = b'\x00\xff\x01' + bytes([len(bad)]) + bad + b'\x00\xff\x2f\x00'
        variants.append(('undecodable-text', b'MThd\x00\x00\x00\x06\x00\x01\x00\x01\x01\xe0MTrk' + len(body).to_bytes(4, 'big') + body))
    for label, data in variants:
        n += 1
        try:
            mido.MidiFile(file=io.BytesIO(data), charset=cs)
            outcome = 'ok'
        except Exception as e:  # noqa: BLE001
            outcome = type(e).__name__
        if not elsewhere_ok():
            now = charset_now()
            reset_charset()
            return ('leak-after-failed-load' if outcome != 'ok' else 'leak-after-load',
                    'after load(%s, charset=%s) -> %s the process charset is %r' % (label, cs, outcome, now)), n
    # a charset that cannot be used at all: an unknown name, an empty name, not a string; loading and saving (files with and without text)
    notext = b'MThd\x00\x00\x00\x06\x00\x01\x00\x01\x01\xe0MTrk\x00\x00\x00\x08\x00\x90\x40\x40\x00\xff\x2f\x00'
    for badcs in ('utf8x', '', 'latin-one', None, 7):
        for label, call in (('load(saved file', lambda: mido.MidiFile(file=io.BytesIO(bs), charset=badcs)),
                            ('load(file without text', lambda: mido.MidiFile(file=io.BytesIO(notext), charset=badcs)),
                            ('save(texts', lambda: mkfile(badcs, texts).save(file=io.BytesIO())),
                            ('save(no text', lambda: mkfile(badcs, []).save(file=io.BytesIO()))):
            n += 1
            try:
                call()
                outcome = 'ok'
            except Exception as e:  # noqa: BLE001
                outcome = type(e).__name__
            if not elsewhere_ok():
                now = charset_now()
                reset_charset()
                return ('leak-after-bad-charset', 'after %s, charset=%r) -> %s the process charset is %r' % (label, badcs, outcome, now)), n
    # failing saves
    for k in range(0, 2 * len(texts), max(1, len(texts) // 3 or 1)):
        n += 1
        mfb = mkfile(cs, texts, bad_time_at=k)
        try:
            mfb.save(file=io.BytesIO())
            outcome = 'ok'
        except Exception as e:  # noqa: BLE001
            outcome = type(e).__name__
        if not elsewhere_ok():
            now = charset_now()
            reset_charset()
            return ('leak-after-failed-save', 'after save(non-integer time in message %d, charset=%s) -> %s the process charset is %r' % (k, cs, outcome, now)), n
    # the output refuses the k-th write (disk full, closed pipe): the charset is the default again as soon as save() has given up - inside the
    # handler, and afterwards while the exception object is still kept (a log, a pytest.raises block)
    class Refusing(io.RawIOBase):
        def __init__(self, room):
            super().__init__()
            self.room = room

        def writable(self):
            return True

        def write(self, data):
            if self.room <= 0:
                raise OSError(28, 'No space left on device')
            self.room -= 1
            return len(data)
    kept = []
    for room in range(0, 12):
        n += 1
        inside = True
        try:
            mkfile(cs, texts).save(file=Refusing(room))
            outcome = 'ok'
        except Exception as e:  # noqa: BLE001
            outcome = type(e).__name__
            kept.append(e)
            inside = elsewhere_ok()
        if not inside or not elsewhere_ok():
            now = charset_now()
            del kept[:]
            reset_charset()
            return ('leak-after-failed-save', 'after save(charset=%s) to a file that refuses write number %d -> %s the process charset is %r (%s)'
                    % (cs, room + 1, outcome, now, 'while the exception is still being handled' if not inside else 'while the exception object is kept')), n
    del kept[:]
    unenc = {'latin1': '\u20ac', 'ascii': '\u00e9', 'cp1252': '\u65e5', 'shift_jis': '\u00e9', 'cp437': '\u20ac', 'koi8-r': '\u65e5'}.get(cs)
    if unenc is not None:
        n += 1
        mfu = mkfile(cs, list(texts) + [unenc])
        try:
            mfu.save(file=io.BytesIO())
            outcome = 'ok'
        except Exception as e:  # noqa: BLE001
            outcome = type(e).__name__
        if not elsewhere_ok():
            now = charset_now()
            reset_charset()
            return ('leak-after-failed-save', 'after save(unencodable text, charset=%s) -> %s the process charset is %r' % (cs, outcome, now)), n
    return None, n


def job(j):
    kind, seed, csi = j
    rng = random.Random(seed)
    cs = CHARSETS[csi % len(CHARSETS)]
    rec = {'n': 0, 'dis': [], 'fail': [], 'dist': {}, 'hashes': set(), 'ndis': 0, 'nfail': 0}
    reset_charset()
    pool = [t for t in SAMPLES if encodable(t, cs)]
    for i in range(6):
        texts = [rng.choice(pool) for _ in range(rng.randrange(1, 5))]
        try:
            fail, n = check_roundtrip(cs, texts) if kind == 'roundtrip' else failing_calls(rng, cs, texts)
        except Exception as e:  # noqa: BLE001
            reset_charset()
            fail, n = ('raises:' + type(e).__name__, 'saving / loading a file with texts %r under charset %s raised %r' % (texts, cs, e)), 1
        rec['n'] += n
        rec['hashes'].add(hash((kind, cs, tuple(texts))))
        rec['dist'][kind + ':' + cs] = rec['dist'].get(kind + ':' + cs, 0) + n
        if fail:
            rec['nfail'] += 1
            if len(rec['fail']) < 5:
                rec['fail'].append((fail[0], fail[1], {'component': kind, 'charset': cs, 'texts': texts}))
    return kind, rec


def later_and_nested(out):
    """the charset is the file's charset AT THE TIME of the call (mid.charset may be changed between construction, load and save), and calls
    may nest (a load made while a save is under way, through whatever hook): each uses its own charset and gives the outer one back"""
    import mido
    n = 0
    texts = ['d\u00e9j\u00e0', 'Gr\u00fc\u00dfe', 'caf\u00e9 \u00e5']
    pairs = [('latin1', 'utf-8'), ('utf-8', 'latin1'), ('latin1', 'utf-16'), ('cp1252', 'utf-8'), ('utf-8', 'cp437')]

    def payload_ok(bs, text, cs):
        return text.encode(cs) in bytes(bs)
    for first, second in pairs:
        for text in texts:
            n += 1
            try:
                mf = mido.MidiFile(type=1, charset=first)
                mf.tracks.append(mido.MidiTrack([mido.MetaMessage('track_name', name=text), mido.MetaMessage('text', text=text, time=3)]))
                b1 = io.BytesIO(); mf.save(file=b1)
                mf.charset = second                         # changed after construction (and after a save)
                b2 = io.BytesIO(); mf.save(file=b2)
                if not payload_ok(b1.getvalue(), text, first) or not payload_ok(b2.getvalue(), text, second):
                    out.failures.append(('charset-at-call-time', 'a file made with charset %s, saved, set to charset %s and saved again: the second file does not hold %r encoded in %s'
                                         % (first, second, text, second), {'component': 'later-and-nested', 'charsets': [first, second], 'text': text}))
                    continue
                back = mido.MidiFile(file=io.BytesIO(b2.getvalue()), charset=second)
                if back.tracks[0][0].name != text:
                    out.failures.append(('charset-at-call-time', 'the file saved after the change to %s does not load back under %s' % (second, second), {'component': 'later-and-nested'}))
                lf = mido.MidiFile(file=io.BytesIO(b1.getvalue()), charset=first)
                lf.charset = second                         # a loaded file re-saved under another charset
                b3 = io.BytesIO(); lf.save(file=b3)
                if not payload_ok(b3.getvalue(), text, second):
                    out.failures.append(('charset-at-call-time', 'a file loaded under %s, set to %s and saved does not hold %r encoded in %s' % (first, second, text, second),
                                         {'component': 'later-and-nested', 'charsets': [first, second], 'text': text}))
            except Exception as e:  # noqa: BLE001
                out.failures.append(('charset-at-call-time-raises:' + type(e).__name__, 'changing the charset of a file between calls (%s -> %s, %r) raised %r' % (first, second, text, e),
                                     {'component': 'later-and-nested'}))
            if not elsewhere_ok():
                reset_charset()
                out.failures.append(('leak-after-save', 'charset leaked after saving one file under %s and then %s' % (first, second), {'component': 'later-and-nested'}))
    # nesting: a track whose iteration (which save performs) loads another file under another charset
    for outer, inner in pairs + [(b, a) for a, b in pairs]:
        for text in texts[:2]:
            n += 1
            try:
                innerf = mido.MidiFile(type=1, charset=inner)
                innerf.tracks.append(mido.MidiTrack([mido.MetaMessage('text', text=text)]))
                ib = io.BytesIO(); innerf.save(file=ib)
                seen = {}

                class Hooked(mido.MidiTrack):
                    def __iter__(self):
                        if 'text' not in seen:
                            seen['text'] = mido.MidiFile(file=io.BytesIO(ib.getvalue()), charset=inner).tracks[0][0].text
                            sb = io.BytesIO(); innerf.save(file=sb); seen['bytes'] = sb.getvalue()
                        return mido.MidiTrack.__iter__(self)
                of = mido.MidiFile(type=1, charset=outer)
                of.tracks.append(Hooked([mido.MetaMessage('text', text=text), mido.MetaMessage('marker', text=text, time=1)]))
                ob = io.BytesIO(); of.save(file=ob)
                if seen.get('text') != text or not payload_ok(seen.get('bytes', b''), text, inner):
                    out.failures.append(('nested-call-charset', 'a load / save under %s made while a save under %s was under way read %r and wrote other bytes than %r encoded in %s'
                                         % (inner, outer, seen.get('text'), text, inner), {'component': 'later-and-nested', 'charsets': [outer, inner], 'text': text}))
                elif ob.getvalue().count(text.encode(outer)) < 2:
                    out.failures.append(('nested-call-charset', 'after a nested call under %s the outer save under %s no longer encodes %r in %s' % (inner, outer, text, outer),
                                         {'component': 'later-and-nested', 'charsets': [outer, inner], 'text': text}))
            except Exception as e:  # noqa: BLE001
                out.failures.append(('nested-call-raises:' + type(e).__name__, 'a call under %s nested in a save under %s raised %r' % (inner, outer, e), {'component': 'later-and-nested'}))
            if not elsewhere_ok():
                reset_charset()
                out.failures.append(('leak-after-save', 'charset leaked after nested calls (%s inside %s)' % (inner, outer), {'component': 'later-and-nested'}))
    out.evaluations += n
    out.components['charset changed between calls; nested calls (implementation against the statement)'] = {'cases': n}


def run(out):
    rng = random.Random(out.seed)
    reps = 1 if out.tier == 'quick' else 40
    jobs = []
    for r in range(reps):
        for i in range(len(CHARSETS)):
            jobs.append(('roundtrip', out.seed + 31 * i + r, i))
            jobs.append(('failing', out.seed + 57 * i + r, i))
    for tag, rec in core.pmap(job, jobs):
        core.merge_into(out, rec, tag)
    # model correspondence for the two concrete codecs: bytes and reloaded text compared with the model through C07's components
    cases = []
    for cs in (0, 1):
        for _ in range(60):
            f = {'type': 1, 'tpb': 96, 'tracks': [[((0, rng.randrange(100)), [1] + sc.random_meta(rng, cs)) for _ in range(rng.randrange(1, 6))]]}
            f['tracks'][0] = [(tv, ev) for tv, ev in f['tracks'][0] if ev[1] == 1] or [((0, 1), [1, 1, 1, 2, 65, 66])]
            cases.append((cs, f))
    mos = core.model_run([(sc.COMP_SAVE, [cs] + sc.file_case(f)) for cs, f in cases])
    for (cs, f), mo in zip(cases, mos):
        io_, bs, exc = sc.run_save(f, cs)
        out.evaluations += 1
        if io_ != mo:
            out.disagreements.append((sc.COMP_SAVE, [cs] + sc.file_case(f), io_[:40], mo[:40]))
        if not elsewhere_ok():
            reset_charset()
            out.failures.append(('leak-after-save', 'charset leaked after a save with charset %s' % sc.CHARSETS[cs], {'component': 'model', 'file': str(f)[:200]}))
    out.components['model (latin1/ascii bytes through the SMF model)'] = {'cases': len(cases)}
    later_and_nested(out)
    out.rule = ('for each of %d charsets (latin1, utf-8, cp1252, shift_jis, utf-16, ascii, cp437, utf-32, koi8-r): files with 1-4 text-carrying meta messages '
                '(all 8 text types) of texts encodable in it: save, find the encoded text in the bytes, load back; and every place a call can fail: load of the '
                'file truncated at EVERY byte offset, corrupted bytes, undecodable text, save with a non-integer time in the n-th message, unencodable text; '
                'loads and saves under unusable charsets (unknown or empty name, not a string); after every call the process-wide charset must be latin1 again (observed through MetaMessage(\'text\', text=\'\\u00e9\').bytes()). '
                'Non-trivial: every call; distinct by (kind, charset, texts).' % len(CHARSETS))
    out.sample({'component': 'failing', 'charset': 'utf-8', 'what': 'load of a saved file truncated at each byte offset, then MetaMessage text bytes observed'})
    out.assumptions += ['codecs other than latin-1/ASCII are Python\'s (assumed to decode what they encode); the theorems are stated for any codec assignment',
                        'the process-wide charset is observed through the module attribute and through MetaMessage.bytes()/from_bytes() after every call']
