"""C12 — merge_tracks keeps every event at its absolute time."""
import random

import core
from props.parser_common import chunk_jobs

THEOREMS_DEPEND_ON = []
COMP_MERGE = 60


def build(case):
    """[ntracks, (n, (delta, eot)*)*] -> list of MidiTrack with identifiable messages"""
    import mido
    tracks, i, pos = [], 0, 1
    for i in range(case[0]):
        n = case[pos]; pos += 1
        tr = mido.MidiTrack()
        for j in range(n):
            dt, e = case[pos], case[pos + 1]; pos += 2
            if e:
                tr.append(mido.MetaMessage('end_of_track', time=dt))
            else:
                v = (i * 7 + j) % 6            # a mix of types (meta incl. set_tempo, channel, sysex): the order must not depend on the type
                if v == 0:
                    tr.append(mido.MetaMessage('marker', text='%d:%d' % (i, j), time=dt))
                elif v == 1:
                    tr.append(mido.Message('control_change', channel=i % 16, control=j % 128, value=(j // 128) % 128, time=dt))
                elif v == 2:
                    tr.append(mido.MetaMessage('set_tempo', tempo=i * 100000 + j + 1, time=dt))
                elif v == 3:
                    tr.append(mido.Message('note_on', channel=i % 16, note=j % 128, velocity=(j // 128) % 128, time=dt))
                elif v == 5:
                    # a meta message of a type the library has no specification for: it is a message like any other
                    tr.append(mido.UnknownMetaMessage(0x60, data=[i % 128, j % 128, (j // 128) % 128], time=dt))
                else:
                    tr.append(mido.Message('sysex', data=[i % 128, j % 128, (j // 128) % 128], time=dt))
        tracks.append(tr)
    # frozen (immutable, hashable) messages are messages too: all of them in a third of the cases, every other one in another third
    mode = sum(case) % 3
    if mode != 2:
        from mido.frozen import freeze_message
        for tr in tracks:
            for j in range(len(tr)):
                if mode == 0 or j % 2 == 0:
                    tr[j] = freeze_message(tr[j])
    return tracks


def ident(m, ntracks_hint=None):
    if m.type == 'end_of_track':
        return (1, 0, 0)
    if m.type == 'marker':
        i, j = m.text.split(':')
        return (0, int(i), int(j))
    if m.type == 'set_tempo':
        return (0, (m.tempo - 1) // 100000, (m.tempo - 1) % 100000)
    if m.type == 'note_on':
        return (0, m.channel, m.note + 128 * m.velocity)
    if m.type in ('sysex', 'unknown_meta'):
        return (0, m.data[0], m.data[1] + 128 * m.data[2])
    return (0, m.channel, m.control + 128 * m.value)


def snapshot(tracks):
    return [[(m.time, repr(m), id(m)) for m in tr] for tr in tracks]


def reference(case):
    """the property text, written independently: (abs time, track, index) of non-eot events, stable order; duration"""
    evs, totals, pos = [], [], 1
    for i in range(case[0]):
        n = case[pos]; pos += 1
        now = 0
        for j in range(n):
            dt, e = case[pos], case[pos + 1]; pos += 2
            now += dt
            if not e:
                evs.append((now, i, j))
        totals.append(now)
    evs.sort(key=lambda x: x[0])         # Python's sort is stable: ties keep (track, index) order
    return evs, max(totals + [0])


_MN = [0]


def merge_noise():
    """a merge that is refused half way (a track list with something that is no track in it, a message that fails the checks), caught by its
    caller: the next merge must not notice"""
    import mido
    _MN[0] += 1
    good = mido.MidiTrack([mido.Message('note_on', note=11, time=7), mido.MetaMessage('marker', text='left over', time=1000)])
    bad = [None, mido.MidiTrack([mido.Message('note_on', note=300, skip_checks=True)]), mido.MidiTrack([mido.Message('note_on', time=1), 'x']),
           mido.MidiTrack([mido.Message('note_on', note=1, time='soon', skip_checks=True)])][_MN[0] % 4]
    try:
        mido.merge_tracks([good, bad])
    except Exception:  # noqa: BLE001
        pass


def impl_merge(case):
    import mido
    fail = None
    try:
        tracks = build(case)
        if any(i >= 16 for i in range(case[0])) and False:
            pass
        before = snapshot(tracks)
        merge_noise()
        merged = mido.merge_tracks(tracks)
        after = snapshot(tracks)
        out = [len(merged)]
        now, absev = 0, []
        for m in merged:
            e, i, j = ident(m)
            out += [m.time, e, i, j]
            now += m.time
            if not e:
                absev.append((now, i, j))
        want, dur = reference(case)
        ids = {x for tr in before for (_, _, x) in tr}
        if after != before:
            fail = ('inputs-modified', 'merge_tracks modified its input tracks for %r' % (case[:40],))
        elif absev != want:
            fail = ('abs-times', 'merged events %r, expected %r' % (absev[:12], want[:12]))
        elif not (len(merged) >= 1 and merged[-1].type == 'end_of_track' and all(m.type != 'end_of_track' for m in merged[:-1])):
            fail = ('one-eot', 'result does not end in exactly one end_of_track: %r' % ([m.type for m in merged][-5:],))
        elif now != dur:
            fail = ('duration', 'duration %r, longest input track %r' % (now, dur))
        else:
            m2 = mido.merge_tracks(tracks, skip_checks=True)
            if [(m.time, repr(m)) for m in m2] != [(m.time, repr(m)) for m in merged]:
                fail = ('skip-checks', 'skip_checks=True changes the result for %r' % (case[:40],))
            mf = mido.MidiFile(type=1, tracks=tracks)
            if [(m.time, repr(m)) for m in mf.merged_track] != [(m.time, repr(m)) for m in merged]:
                fail = ('merged-track', 'MidiFile.merged_track differs from merge_tracks')
            if fail is None:
                # the result belongs to the caller: editing it must not reach the inputs, nor any other merge (before or after)
                want_repr = [(m.time, repr(m)) for m in merged]
                for m in merged:
                    try:
                        m.time += 960
                    except Exception:  # noqa: BLE001  (frozen messages cannot be edited, so they cannot leak either)
                        pass
                m3 = mido.merge_tracks(tracks)
                if snapshot(tracks) != before:
                    fail = ('inputs-modified', 'editing the merged track changed the input tracks for %r' % (case[:40],))
                elif [(m.time, repr(m)) for m in m3] != want_repr:
                    fail = ('result-shared', 'after the times in an earlier result were edited, merging the same tracks again gives %r, expected %r'
                            % ([(m.time, repr(m)) for m in m3][-3:], want_repr[-3:]))
                elif [(m.time, repr(m)) for m in m2] != want_repr:
                    fail = ('result-shared', 'editing one merge result changed another result obtained earlier: %r' % ([(m.time, repr(m)) for m in m2][-3:],))
            if fail is None:
                # one MidiFile asked again after its tracks were edited in place (same number of tracks and of messages), and after the
                # caller edited the answer it got first: the answer is the merge of the tracks as they are now
                tr2 = build(case)
                mf2 = mido.MidiFile(type=1, tracks=tr2)
                first = mf2.merged_track
                del first[:1]
                try:
                    for tr in tr2:
                        if tr:
                            tr[0].time += 5
                            break
                    if len(tr2) >= 2 and len(tr2[0]) == len(tr2[1]):
                        tr2[0], tr2[1] = tr2[1], tr2[0]
                except Exception:  # noqa: BLE001  (frozen messages)
                    pass
                now2 = [(m.time, repr(m)) for m in mf2.merged_track]
                ref2 = [(m.time, repr(m)) for m in mido.merge_tracks(tr2)]
                if now2 != ref2:
                    fail = ('merged-track-stale', 'merged_track of a file whose tracks were edited in place after an earlier look gives %r; its tracks now merge to %r' % (now2[:4], ref2[:4]))
            if fail is None and len(tracks) != 1:
                # merged_track merges the tracks the file HAS, whatever its header says about them (a type 0 file that was given more tracks)
                mfx = mido.MidiFile(type=0, tracks=tracks)
                if [(m.time, repr(m)) for m in mfx.merged_track] != want_repr:
                    fail = ('merged-track', 'merged_track of a file of type 0 holding %d tracks differs from merge_tracks of those tracks: %d messages, expected %d'
                            % (len(tracks), len(mfx.merged_track), len(want_repr)))
            if fail is None and len(tracks) == 1:
                mf0 = mido.MidiFile(type=0, tracks=tracks)
                if [(m.time, repr(m)) for m in mf0.merged_track] != want_repr:
                    fail = ('merged-track', 'merged_track of a type 0 file differs from merge_tracks of its track: %r' % ([m.type for m in mf0.merged_track][-4:],))
    except Exception as e:  # noqa: BLE001
        out = [-1, core.exn_code(e)]
        fail = ('raises:' + type(e).__name__, 'merge_tracks raised %r for %r' % (e, case[:40]))
    return out, fail, 'tracks=%d' % case[0]


def shared_objects(out, rng):
    """the same message OBJECT at several places of the input (MidiTrack([m]) * 3, one frozen message shared by tracks): every occurrence is an
    event of its own at its own absolute tick (implementation against the statement; the model identifies events by position, not by object)"""
    import mido
    from mido.frozen import freeze_message
    n = 0
    for trial in range(200 if out.tier == 'quick' else 20000):
        pool = [mido.Message('note_on', note=k, time=rng.choice([0, 1, 5, 96])) for k in range(rng.randrange(1, 4))]
        pool += [mido.MetaMessage('set_tempo', tempo=300000 + k, time=rng.choice([0, 3, 96])) for k in range(rng.randrange(0, 2))]
        if rng.random() < 0.5:
            pool = [freeze_message(m) for m in pool]
        tracks = []
        for _ in range(rng.randrange(1, 4)):
            if rng.random() < 0.4:
                tr = mido.MidiTrack([rng.choice(pool)]) * rng.randrange(1, 5)
            else:
                tr = mido.MidiTrack(rng.choice(pool) for _ in range(rng.randrange(0, 6)))
            tracks.append(tr)
        want, dur = [], 0
        for ti, tr in enumerate(tracks):
            now = 0
            for j, m in enumerate(tr):
                now += m.time
                want.append((now, ti, j, repr(m.copy(time=0))))
            dur = max(dur, now)
        want.sort(key=lambda e: e[:3])
        n += 1
        try:
            for label, merged in (('merge_tracks', mido.merge_tracks(tracks)), ('merge_tracks(skip_checks=True)', mido.merge_tracks(tracks, skip_checks=True)),
                                  ('MidiFile.merged_track', mido.MidiFile(type=1, tracks=tracks).merged_track)):
                now, got = 0, []
                for m in merged:
                    now += m.time
                    if m.type != 'end_of_track':
                        got.append((now, repr(m.copy(time=0))))
                if got != [(a, r) for a, _, _, r in want] or now != dur:
                    out.failures.append(('shared-objects', '%s of tracks in which one message object occurs several times: events %r (duration %r), expected %r (duration %r)'
                                         % (label, got[:10], now, [(a, r) for a, _, _, r in want][:10], dur),
                                         {'component': 'shared-objects', 'tracks': [[(m.time, repr(m), id(m) % 1000) for m in tr] for tr in tracks]}))
                    break
        except Exception as e:  # noqa: BLE001
            out.failures.append(('shared-objects-raises:' + type(e).__name__, 'merging tracks in which one message object occurs several times raised %r' % (e,),
                                 {'component': 'shared-objects', 'tracks': [[(m.time, repr(m)) for m in tr] for tr in tracks]}))
    out.evaluations += n
    out.components['one message object at several places (implementation against the statement)'] = {'cases': n}


def job(j):
    tag, comp, cases = j
    return tag, core.eval_cases(comp, cases, impl_merge, repeat=40, fresh=True)


def random_case(rng):
    nt = rng.choice([0, 1, 1, 2, 2, 3, 4, 6])
    case = [nt]
    for _ in range(nt):
        n = rng.choice([0, 0, 1, 2, 5, rng.randrange(0, 41)])
        case.append(n)
        for j in range(n):
            dt = rng.choice([0, 0, 0, 0, 1, 2, 480, 2 ** 28])
            e = 1 if rng.random() < 0.15 or (j == n - 1 and rng.random() < 0.6) else 0
            case += [dt, e]
    return case


def run(out):
    rng = random.Random(out.seed)
    n = 2000 if out.tier == 'quick' else 300000
    cases = [[0], [1, 0], [2, 0, 0], [1, 1, 5, 1], [2, 2, 0, 0, 0, 0, 2, 0, 0, 0, 0], [2, 3, 5, 0, 0, 1, 3, 0, 2, 5, 0, 10, 1]]
    cases += [random_case(rng) for _ in range(n)]
    for tag, rec in core.pmap(job, chunk_jobs(cases, 'merge', COMP_MERGE)):
        core.merge_into(out, rec, tag)
    shared_objects(out, rng)
    out.rule = ('merge_tracks on %d generated track lists: 0-6 tracks (incl. none and empty), 0-40 events, deltas from {0,0,0,0,1,2,480,2**28} so that '
                'ties abound, end_of_track missing / repeated / mid-track; every message identifiable by (track, index); a third of the cases hold only frozen messages, a third every other one; result compared message '
                'by message with the model; inputs snapshotted before and after; skip_checks=True and MidiFile.merged_track compared; the times of one result are then edited and the tracks merged again (results must be independent of each other and of the inputs). Oracle: '
                'absolute ticks, stable order, exactly one trailing end_of_track, duration of the longest track. Non-trivial: non-zero content; '
                'distinct by content.' % len(cases))
    out.sample({'component': 'merge', 'case': cases[5]})
    out.sample({'component': 'merge', 'case': cases[20][:60]})
    core.kernel_crosscheck(out, [(COMP_MERGE, c) for c in rng.sample([c for c in cases if len(c) < 120], 150)], 'C12')
    out.assumptions += ['list.sort is a stable sort (modelled by stable insertion sort; the sorted permutation is unique for the key (time, track, index))',
                        'delta times are integers >= 0 (the property\'s domain); float or negative deltas are not modelled']
