"""C11 — port lifecycle: idempotent close, drain then stop, blocking calls terminate."""
import itertools
import random

import core
from props.parser_common import chunk_jobs

THEOREMS_DEPEND_ON = []
COMP_IOPORT = 102
COMP_PORT, COMP_MULTI = 100, 101


class Hang(Exception):
    """the call would never return (hang guard)"""


def mkmsg(i):
    import mido
    if i >= 1000:                      # reset_messages(): 1000 + 2*channel + {0: all_notes_off(123), 1: reset_all_controllers(121)}
        ch, which = divmod(i - 1000, 2)
        return mido.Message('control_change', channel=ch, control=123 if which == 0 else 121)
    return mido.Message('note_on', channel=(i >> 7) & 15, note=i & 127, velocity=1)


def msgid(m):
    if m is None:
        return -1
    if m.type == 'control_change':
        return 1000 + 2 * m.channel + (0 if m.control == 123 else 1)
    return (m.channel << 7) | m.note


def decode_actions(n, l):
    acts, i = [], 0
    for _ in range(n):
        k = l[i]
        if k == 0:
            acts.append(('msg', l[i + 1])); i += 2
        elif k == 1:
            acts.append(('nothing',)); i += 1
        elif k == 2:
            c = l[i + 1]; acts.append(('push', l[i + 2:i + 2 + c])); i += 2 + c
        elif k == 3:
            acts.append(('close',)); i += 1
        else:
            c = l[i + 1]; acts.append(('pushclose', l[i + 2:i + 2 + c])); i += 2 + c
    return acts, l[i:]


def make_port(autoreset, echo, script, state, faults=(), locking=True):
    faults = list(faults)
    import mido.ports as ports

    base = ports.EchoPort if echo else ports.BaseIOPort

    class Dev(base):
        _locking = locking          # False: a port class that does its own locking (the rtmidi backend's ports, IOPort): same behaviour in one thread

        def _open(self, **kw):
            state['closes'] = 0
            state['sent'] = []
            state['calls'] = 0

        def _close(self):
            state['closes'] += 1

        def _send(self, msg):
            state.setdefault('attempts', []).append(msgid(msg))
            if faults and faults.pop(0):
                state.setdefault('faulted', []).append(msgid(msg))
                raise OSError('device fault')
            if echo:
                state['taken'].append(msgid(msg))
                return base._send(self, msg)
            state['sent'].append(msgid(msg))

        def receive(self, block=True):
            state['per_call'] = 0          # the hang guard counts the sleeps of ONE receive() call
            return base.receive(self, block=block)

        def _receive(self, block=True):
            state['calls'] += 1
            if not script:
                return None
            a = script.pop(0)
            if a[0] == 'msg':
                state['taken'].append(a[1])
                return mkmsg(a[1])
            if a[0] == 'nothing':
                return None
            if a[0] in ('push', 'pushclose'):
                for i in a[1]:
                    state['taken'].append(i)
                    self._messages.append(mkmsg(i))
            if a[0] in ('close', 'pushclose'):
                self.close()
            return None
    return Dev('dev', autoreset=bool(autoreset))


def ops_kinds(ops):
    ks, i = [], 0
    while i < len(ops):
        ks.append(ops[i])
        i += 2 if ops[i] in (0, 1, 4, 6) else 1
    return ks


def impl_port(case):
    """the case on a port class with the library's lock and on one that declares its own locking (`_locking = False`): one thread cannot tell them apart"""
    out, fail, tag = impl_port_1(case, True)
    out2, fail2, _ = impl_port_1(case, False)
    if fail is None:
        fail = fail2 and (fail2[0], 'on a port class with _locking = False: ' + fail2[1])
    if fail is None and out2 != out:
        fail = ('nonlocking-differs', 'the history behaves differently on a port class with _locking = False: %r, with the lock %r' % (out2[:60], out[:60]))
    return out, fail, tag


def impl_port_1(case, locking):
    import mido.ports as ports
    ar, echo, fuel, nf = case[:4]
    faults = case[4:4 + nf]
    ns = case[4 + nf]
    script, ops = decode_actions(ns, case[5 + nf:])
    state = {'sleeps': 0, 'taken': []}
    delivered = []
    port = make_port(ar, echo, script, state, faults, locking)
    per_call = {'n': 0}

    def fake_sleep():
        state['sleeps'] += 1
        per_call['n'] += 1
        state['per_call'] = state.get('per_call', 0) + 1
        if state['per_call'] >= fuel:
            raise Hang()
    saved = ports.sleep
    ports.sleep = fake_sleep
    out, fail, i = [], None, 0
    delivered_before_close = None
    try:
        while i < len(ops):
            k = ops[i]
            arg = ops[i + 1] if k in (0, 1, 4, 6) else None
            i += 2 if k in (0, 1, 4, 6) else 1
            per_call['n'] = 0
            closed_before, q_before = port.closed, [msgid(m) for m in port._messages]
            try:
                if k == 0:
                    port.send(mkmsg(arg)); res = [0]
                    if closed_before and fail is None:
                        fail = ('send-on-closed', 'send on a closed port did not raise')
                elif k == 1:
                    m = port.receive(block=bool(arg)); res = [1, msgid(m)]
                    if not arg and per_call['n'] > 0 and fail is None:
                        fail = ('nonblocking-slept', 'a non-blocking receive slept %d times' % per_call['n'])
                elif k == 2:
                    m = port.poll(); res = [1, msgid(m)]
                    if per_call['n'] > 0 and fail is None:
                        fail = ('nonblocking-slept', 'poll slept %d times' % per_call['n'])
                elif k == 3:
                    ms = []
                    for m in port.iter_pending():
                        ms.append(msgid(m)); delivered.append(msgid(m))
                    res = [2, len(ms)] + ms
                elif k == 4:
                    lim = arg
                    ms = []
                    for m in (itertools.islice(iter(port), lim) if lim >= 0 else iter(port)):
                        ms.append(msgid(m)); delivered.append(msgid(m))
                    res = [2, len(ms)] + ms
                elif k == 5:
                    port.close(); res = [0]
                elif k == 6:
                    with port:
                        port.send(mkmsg(arg))
                    res = [0]
                elif k == 7:
                    port.__del__(); res = [0]
                else:
                    port.reset(); res = [0]
            except Hang:
                res = [3, 13]
                if fail is None and (k in (1, 2, 3, 4)):
                    avail = bool(q_before) or any(a[0] in ('msg', 'push', 'pushclose', 'close') for a in script)
                    # a hang is legitimate only when nothing is deliverable and the device never closes
                    if k in (2, 3) or (k == 1 and not arg):
                        fail = ('nonblocking-hangs', 'a non-blocking call never returned')
            except Exception as e:  # noqa: BLE001
                res = [3, core.exn_code(e)]
                if k == 6 and not port.closed:
                    try:
                        port.close()
                    except Exception as e2:  # noqa: BLE001
                        if fail is None:
                            fail = ('close-raises', 'close() after a failed with-block raised %r' % (e2,))
                if fail is None:
                    if k == 4:
                        fail = ('iteration-raises:' + type(e).__name__, 'iteration over the port raised %r (closed before: %r, queued before: %r)' % (e, closed_before, q_before))
                    elif k in (0, 6, 8) and not (closed_before and isinstance(e, ValueError)) and not (isinstance(e, OSError) and str(e) == 'device fault'):
                        fail = ('send-raises', 'send raised %r' % (e,))
                    elif k in (5, 7):
                        fail = ('close-raises', 'close raised %r' % (e,))
                    elif k in (2, 3) and True:
                        fail = ('poll-raises:' + type(e).__name__, 'poll/iter_pending raised %r' % (e,))
            if fail is None and state['closes'] > 1:
                fail = ('closed-twice', 'the device was released %d times' % state['closes'])
            if fail is None and port.closed and state['closes'] != 1:
                fail = ('close-without-release', 'the port is closed but the device was released %d times' % state['closes'])
            # nothing the port has taken in is lost, duplicated or reordered: handed out ++ still queued == taken in
            if res[0] == 1 and res[1] >= 0:
                delivered.append(res[1])
            q_after = [msgid(m) for m in port._messages]
            if fail is None and delivered + q_after != state['taken']:
                fail = ('lost-or-reordered', 'taken in %r but handed out %r with %r still queued' % (state['taken'], delivered, q_after))
            # ... and a call that hands out nothing (None, an exception, the end of an iteration) leaves nothing behind
            if fail is None and q_after and res != [3, 13] and ((k in (1, 2) and res[0] != 1) or (k in (1, 2) and res == [1, -1]) or k == 3
                                                                or (k == 4 and (arg < 0 or res[0] != 2 or len(res) - 2 < arg))):
                fail = ('drain', 'operation %d ended with %r while %r was still queued (closed: %r)' % (k, res, q_after, port.closed))
            if fail is None and closed_before and k in (1, 2, 3, 4) and q_before:
                got = res[2:] if res[0] == 2 else ([res[1]] if res[0] == 1 and res[1] >= 0 else [])
                if got != q_before[:len(got)] or (k in (3,) and got != q_before) or (k == 4 and arg < 0 and got != q_before):
                    fail = ('drain', 'a closed port holding %r handed out %r' % (q_before, got))
            out += res + [1 if port.closed else 0, state['closes'], state['sleeps'], state['calls'], len(state['sent']), len(port._messages), -9]
        out += [len(state['sent'])] + state['sent'] + [len(port._messages)] + [msgid(m) for m in port._messages]
        if fail is None and ar and not echo and port.closed and not any(faults) and 8 not in ops_kinds(ops):
            rs = [x for x in state['sent'] if x >= 1000]
            if rs != [1000 + j for j in range(32)] or state['sent'][-32:] != rs:
                fail = ('autoreset', 'autoreset: reset messages on the device: %r' % (rs,))
        if fail is None and ar and not echo and port.closed and any(faults) and 8 not in ops_kinds(ops):
            # a device that fails now and then: however the port came to be closed (close(), a with-block left normally or through an
            # exception, the device closing itself), the reset messages were offered to the device, once, in order, up to the first one it refused
            att = [x for x in state.get('attempts', []) if x >= 1000]
            bad = [x for x in state.get('faulted', []) if x >= 1000]
            want = [1000 + j for j in range(32)]
            if bad:
                want = want[:want.index(bad[0]) + 1]
            if att != want:
                fail = ('autoreset', 'autoreset on a device that fails now and then: the reset messages offered to the device before it was released are %r, expected %r' % (att[:40], want[:40]))
    finally:
        ports.sleep = saved
    return out, fail, 'echo' if echo else ('autoreset' if ar else 'plain')


def impl_multi(case):
    import mido.ports as ports
    fuel, block, ns = case[:3]
    l, subs = case[3:], []
    for _ in range(ns):
        c, n = l[0], l[1]
        q = l[2:2 + n]
        nsc = l[2 + n]
        script, l = decode_actions(nsc, l[3 + n:])
        pst = {'sleeps': 0, 'taken': []}
        p = make_port(0, 0, script, pst)       # a device double: its _receive follows the script (may close itself)
        p.state_ = pst
        for x in q:
            p._messages.append(mkmsg(x))
        if c:
            p.close()
        p.was_open = not c
        subs.append(p)
    k = l[0]
    mp = ports.MultiPort(subs)
    st = {'sleeps': 0, 'n': 0}

    def fake_sleep():
        st['sleeps'] += 1
        st['n'] += 1
        if st['n'] >= fuel:
            raise Hang()
    saved, saved_shuffle = ports.sleep, ports.random.shuffle
    ports.sleep = fake_sleep
    ports.random.shuffle = lambda x: None
    out, fail = [], None
    try:
        for _ in range(k):
            st['n'] = 0
            deliverable = bool(mp._messages) or any((not p.closed) and p._messages for p in subs)
            own_empty = not mp._messages
            asked_before = [(p, p.state_.get('calls', 0)) for p in subs if not p.closed]
            try:
                m = mp.receive(block=bool(block))
                out += [1, msgid(m)]
                if deliverable and st['n'] > 0 and fail is None:
                    fail = ('multiport-slow', 'MultiPort.receive slept %d times although a message was deliverable' % st['n'])
                if m is None and deliverable and fail is None:
                    fail = ('multiport-missed', 'MultiPort.receive(block=%r) returned None although a message was deliverable (use number %d of this MultiPort)' % (bool(block), _ + 1))
                if not block and st['n'] > 0 and fail is None:
                    fail = ('multiport-nonblocking-slept', 'MultiPort.receive(block=False) slept %d time(s)' % st['n'])
            except Hang:
                out += [3, 13]
                if fail is None and (deliverable or not block):
                    fail = ('multiport-hangs', 'MultiPort.receive(block=%r) never returned although %s' % (bool(block), 'a message was deliverable' if deliverable else 'it must not wait'))
            except Exception as e:  # noqa: BLE001
                out += [3, core.exn_code(e)]
            # a receive that hands out nothing (or never returns) must at least have asked every open sub-port's device: a message is
            # deliverable when the device would hand it over on being asked
            if fail is None and own_empty and out[-2:] in ([1, -1], [3, 13]):
                idle = [i for i, (p, c) in enumerate(asked_before) if p.state_.get('calls', 0) == c]
                if idle:
                    fail = ('multiport-does-not-ask', 'MultiPort.receive(block=%r) (use number %d) came back empty-handed without asking the device of %d open sub-port(s)'
                            % (bool(block), _ + 1, len(idle)))
            # a sub-port that closes itself inside a poll has taken its last messages in during that poll; the sweep hands all of them on,
            # for the MultiPort will not look at a closed port again
            stranded = [(i, [msgid(x) for x in p._messages]) for i, p in enumerate(subs) if p.was_open and p.closed and p._messages]
            if stranded and fail is None:
                fail = ('multiport-strands', 'after MultiPort.receive returned, sub-port(s) that closed themselves during the poll still hold messages the MultiPort '
                        'will never hand out: %r' % (stranded,))
        out += [st['sleeps']]
    finally:
        ports.sleep, ports.random.shuffle = saved, saved_shuffle
    return out, fail, 'multi'


def impl_ioport(case):
    """the IOPort wrapper over an input device double (the script) and an output device double (autoreset, faults): same case format as
    impl_port, plus 9 = io.input.close(), 10 = io.output.close(); compared step by step with Model/IOPortM.v (component 102) and with the statement"""
    import mido.ports as ports
    ar, echo, fuel, nf = case[:4]
    faults = case[4:4 + nf]
    ns = case[4 + nf]
    script, ops = decode_actions(ns, case[5 + nf:])
    sti, sto = {'sleeps': 0, 'taken': []}, {'sleeps': 0, 'taken': []}
    inp = make_port(0, 0, script, sti)
    outp = make_port(ar, 0, [], sto, faults)
    port = ports.IOPort(inp, outp)

    def fake_sleep():
        sti['sleeps'] += 1
        sti['per_call'] = sti.get('per_call', 0) + 1
        if sti['per_call'] >= fuel:
            raise Hang()
    saved = ports.sleep
    ports.sleep = fake_sleep
    out, delivered, fail, i = [], [], None, 0
    try:
        while i < len(ops):
            k = ops[i]
            arg = ops[i + 1] if k in (0, 1, 4, 6) else None
            i += 2 if k in (0, 1, 4, 6) else 1
            sti['per_call'] = 0
            closed_before = port.closed
            try:
                if k == 0:
                    port.send(mkmsg(arg)); res = [0]
                    if closed_before and fail is None:
                        fail = ('ioport-send-on-closed', 'send on a closed IOPort did not raise')
                elif k in (1, 2):
                    m = port.receive(block=bool(arg)) if k == 1 else port.poll()
                    res = [1, msgid(m)]
                    if m is not None:
                        delivered.append(msgid(m))
                    elif inp._messages and fail is None:
                        fail = ('ioport-drain', 'a call returned nothing while %r was queued' % ([msgid(x) for x in inp._messages],))
                elif k == 3:
                    ms = []
                    for m in port.iter_pending():
                        ms.append(msgid(m)); delivered.append(msgid(m))
                    res = [2, len(ms)] + ms
                elif k == 4:
                    ms = []
                    for m in (itertools.islice(iter(port), arg) if arg >= 0 else iter(port)):
                        ms.append(msgid(m)); delivered.append(msgid(m))
                    res = [2, len(ms)] + ms
                elif k == 5:
                    port.close(); res = [0]
                elif k == 6:
                    with port:
                        port.send(mkmsg(arg))
                    res = [0]
                elif k == 7:
                    port.__del__(); res = [0]
                elif k == 8:
                    port.reset(); res = [0]
                elif k == 9:
                    inp.close(); res = [0]
                else:
                    outp.close(); res = [0]
            except Hang:
                res = [3, 13]
                if (k in (2, 3) or (k == 1 and not arg)) and fail is None:
                    fail = ('ioport-nonblocking-hangs', 'a non-blocking call on the IOPort never returned')
            except Exception as e:  # noqa: BLE001
                res = [3, core.exn_code(e)]
                if k == 6 and not port.closed:
                    try:
                        port.close()
                    except Exception as e2:  # noqa: BLE001
                        if fail is None:
                            fail = ('close-raises', 'close() after a failed with-block raised %r' % (e2,))
                legit = (k in (0, 6, 8) and ((closed_before and isinstance(e, ValueError)) or str(e) == 'device fault' or (outp.closed and isinstance(e, ValueError)))) \
                    or (k == 1 and arg and isinstance(e, (ValueError, OSError)) and inp.closed and not inp._messages)
                if not legit and fail is None:
                    fail = ('ioport-raises:' + type(e).__name__, 'operation %d on the IOPort raised %r (closed before: %r)' % (k, e, closed_before))
            if fail is None and (sti['closes'] > 1 or sto['closes'] > 1):
                fail = ('ioport-closed-twice', 'a device behind the IOPort was released more than once (%d, %d)' % (sti['closes'], sto['closes']))
            if fail is None and port.closed and not (inp.closed and outp.closed and sti['closes'] == 1 and sto['closes'] == 1):
                fail = ('ioport-close-incomplete', 'the IOPort is closed but its devices are not both released exactly once (%r, %r)' % (sti['closes'], sto['closes']))
            if fail is None and delivered + [msgid(m) for m in inp._messages] != sti['taken']:
                fail = ('ioport-lost-or-reordered', 'taken in %r, handed out %r, queued %r' % (sti['taken'], delivered, [msgid(m) for m in inp._messages]))
            out += res + [1 if port.closed else 0, 1 if inp.closed else 0, sti['closes'], 1 if outp.closed else 0, sto['closes'], sti['sleeps'], sti['calls'],
                          len(sto['sent']), len(inp._messages), -9]
        out += [len(sto['sent'])] + sto['sent'] + [len(inp._messages)] + [msgid(m) for m in inp._messages]
        if fail is None and ar and outp.closed and not any(faults) and 8 not in ops_kinds(ops):
            rs = [x for x in sto['sent'] if x >= 1000]
            if rs != [1000 + j for j in range(32)] or sto['sent'][-32:] != rs:
                fail = ('ioport-autoreset', 'IOPort over an autoreset output port: the reset messages that reached the device are %r (expected the 32, once, last)' % (rs[:70],))
    finally:
        ports.sleep = saved
    return out, fail, 'ioport'


def job(j):
    tag, comp, cases = j
    if tag == 'ioport':
        return tag, core.eval_cases(COMP_IOPORT, cases, impl_ioport)
    if tag == 'server':
        from props import c18
        return tag, core.eval_cases(comp, cases, c18.impl_server)
    return tag, core.eval_cases(comp, cases, impl_port if tag == 'port' else impl_multi)


def enc_action(a):
    if a[0] == 'msg':
        return [0, a[1]]
    if a[0] == 'nothing':
        return [1]
    if a[0] == 'push':
        return [2, len(a[1])] + list(a[1])
    if a[0] == 'close':
        return [3]
    return [4, len(a[1])] + list(a[1])


def run(out):
    rng = random.Random(out.seed)
    FUEL = 6
    uid = [0]

    def fresh():
        uid[0] += 1
        return uid[0] % 900 + 1
    ACTIONS = lambda: [('msg', fresh()), ('nothing',), ('push', [fresh(), fresh()]), ('push', [fresh()]), ('close',), ('pushclose', [fresh()])]
    OPS = [[0, 7], [1, 1], [1, 0], [2], [3], [4, -1], [4, 1], [5], [6, 9], [7], [8]]
    cases = []
    # all op sequences of length <= 3 over the operations x scripts of length <= 2 (quick); longer random ones on top
    scripts = [[]] + [[a] for a in ACTIONS()] + [[a, b] for a in ACTIONS() for b in ACTIONS()]
    for script in scripts:
        for n in (1, 2, 3):
            for ops in itertools.product(range(len(OPS)), repeat=n):
                if n == 3 and rng.random() > (0.12 if out.tier == 'quick' else 1.0):
                    continue
                for ar, echo in ((0, 0), (1, 0), (0, 1)):
                    if (ar, echo) != (0, 0) and rng.random() > 0.25:
                        continue
                    c = [ar, echo, FUEL, 0, len(script)]
                    for a in script:
                        c += enc_action(a)
                    for o in ops:
                        c += OPS[o]
                    cases.append(c)
    for _ in range(3000 if out.tier == 'quick' else 300000):
        script = [rng.choice(ACTIONS()) for _ in range(rng.randrange(0, 6))]
        ops = [rng.choice(OPS) for _ in range(rng.randrange(1, 26 if out.tier == 'thorough' else 10))]
        faults = [int(rng.random() < 0.3) for _ in range(rng.randrange(0, 4))] if rng.random() < 0.4 else []
        if rng.random() < 0.15:
            faults = [0] * rng.randrange(0, 34) + [1]
        c = [rng.choice([0, 0, 1]), rng.choice([0, 0, 0, 1]), FUEL, len(faults)] + faults + [len(script)]
        for a in script:
            c += enc_action(a)
        for o in ops:
            c += o
        cases.append(c)
    # blocking receive returns as soon as a message is deliverable: first delivery at the k-th _receive call
    for k in range(1, 6):
        for deliver in (('msg', 5), ('push', [5, 6]), ('pushclose', [5])):
            c = [0, 0, 8, 0, k]
            for _ in range(k - 1):
                c += [1]
            c += enc_action(deliver) + [1, 1]
            cases.append(c)
    # the device fails at its j-th _send: during the reset of an autoreset close, in a with-block, during reset()
    for j in range(0, 34):
        faults = [0] * j + [1]
        for ar in (0, 1):
            for ops in ([5, 5], [6, 9, 5], [8, 5, 5], [0, 3, 5], [0, 3, 0, 4, 7, 5]):
                cases.append([ar, 0, FUEL, len(faults)] + faults + [0] + ops)
    multis = []
    for _ in range(400 if out.tier == 'quick' else 40000):
        ns = rng.randrange(0, 4)
        c = [4, rng.choice([0, 1]), ns]
        for _ in range(ns):
            q = [fresh() for _ in range(rng.randrange(0, 3))]
            # some sub-ports are devices that take messages in (and may close themselves) inside a poll
            script = [rng.choice([('push', [fresh(), fresh()]), ('pushclose', [fresh(), fresh()]), ('pushclose', [fresh()]), ('msg', fresh()), ('nothing',), ('close',),
                                  ('push', [fresh()])]) for _ in range(rng.randrange(0, 3))] if rng.random() < 0.5 else []
            c += [1 if rng.random() < 0.2 else 0, len(q)] + q + [len(script)]
            for a in script:
                c += enc_action(a)
        c += [rng.randrange(1, 5)]
        multis.append(c)
    multis += [[4, 1, 1, 0, 1, 5, 0, 1], [4, 1, 2, 0, 0, 0, 0, 1, 5, 0, 2], [4, 0, 1, 0, 0, 0, 1],
               [6, 1, 1, 0, 0, 1, 4, 3, 11, 12, 13, 3], [6, 0, 2, 0, 0, 1, 4, 2, 21, 22, 0, 1, 23, 0, 4]]
    # PortServer (a MultiPort over accepted socket connections, mido/sockets.py): blocking and non-blocking receive with clients that have
    # a message deliverable, through the C18 runner on real loop-back connections (model component 111)
    servers = []
    for _ in range(30 if out.tier == 'quick' else 300):
        def client():
            m = [0x90 | rng.randrange(16), rng.randrange(128), rng.randrange(128)]
            return rng.choice([m, m + [-1], m + [-2], [], [-2], m[:2] + [-1] + m[2:]])
        cl = [client() for _ in range(rng.randrange(1, 3))]
        wt = [client() for _ in range(rng.randrange(0, 2))]
        c = [1, 1, 4, rng.choice([1, 1, 0]), len(cl)]
        for e in cl:
            c += [len(e)] + e
        c += [len(wt)]
        for e in wt:
            c += [len(e)] + e
        c += [rng.randrange(1, 4)]
        servers.append(c)
    jobs = chunk_jobs(cases, 'port', COMP_PORT) + chunk_jobs(multis, 'multi', COMP_MULTI, 4) + chunk_jobs(servers, 'server', 111, 4)
    # the same histories on the IOPort wrapper (input device = the script, output device = autoreset and faults), with the wrapped ports
    # also closed directly now and then
    iocases = []
    for c in [c for c in cases if c[1] == 0][::3]:
        if rng.random() < 0.3:
            c = c + rng.choice([[9], [10], [9, 5], [10, 0, 3], [9, 4, -1], [10, 8], [9, 1, 1], [10, 6, 4, 2]])
        elif rng.random() < 0.15:
            nf, ns_at = c[3], 4 + c[3]
            scr, ops_ = decode_actions(c[ns_at], c[ns_at + 1:])
            c = c[:len(c) - len(ops_)] + rng.choice([[9], [10], [10, 9]]) + ops_
        iocases.append(c)
    jobs += chunk_jobs(iocases, 'ioport', COMP_IOPORT, 4)
    for tag, rec in core.pmap(job, jobs):
        core.merge_into(out, rec, tag)
    # close() called from several threads at once: still one release (scheduled real threads, every schedule within the preemption bound)
    from props import threads_extra
    nc_, exc_, npc_, fc_, rc_ = threads_extra.close_scenarios(out.tier == 'quick')
    threads_extra.replay_on_model(out, threads_extra.COMP_CLOSE, rc_, 'close() runs replayed on ConcClose.v')
    out.evaluations += nc_
    out.components['close() from several threads (scheduled, implementation against the statement)'] = {
        'cases': nc_, 'programs': npc_, 'programs_with_all_schedules_within_the_preemption_bound': exc_, 'oracle_failures': len(fc_)}
    for f in fc_[:10]:
        out.failures.append((f[0], f[1], {'component': 'close-threads'}))
    out.rule = ('device doubles (BaseIOPort and EchoPort subclasses recording _open/_close/_send, fed by a script of _receive actions: message, nothing, push into the queue, '
                'device closes itself, push then close); ALL operation sequences of length <= 2 and a sample of length 3 over send/receive(block)/receive(non-block)/poll/'
                'iter_pending/iterate all/iterate 1/close/with/del x ALL scripts of length <= 2 over 6 actions, plus random sequences (up to %d operations), autoreset and EchoPort '
                'variants; the same histories on the IOPort wrapper over two device doubles (wrapped ports also closed directly), against IOPortM.v; sleep() is replaced by a counter with a hang guard (%d sleeps = never returns); MultiPort over 0-3 EchoPorts. Result of every operation, closed flag, device '
                'release count, sleep and _receive call counts compared with the model after every step. Non-trivial: every case; distinct by content.' % (25 if out.tier == 'thorough' else 9, FUEL))
    out.sample({'component': 'port', 'case': cases[5000]})
    out.sample({'component': 'multi', 'case': multis[0]})
    core.kernel_crosscheck(out, [(COMP_PORT, c) for c in rng.sample(cases, 150)] + [(COMP_MULTI, c) for c in multis[:50]], 'C11')
    out.assumptions += ['the wall-clock behaviour of time.sleep and garbage-collector-driven __del__ are not modelled (sleep is a counter, __del__ is called explicitly)',
                                                'MultiPort polls its sub-ports in list order here (random.shuffle is replaced by the identity)',
                        'the IOPort wrapper is modelled over two independent device ports (IOPortM.v); an IOPort whose input and output are one and the same port object is covered by the plain port model']
