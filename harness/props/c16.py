"""C16 — a MidiFile always reflects its current contents."""
import copy
import io
import random

import core
from props.parser_common import chunk_jobs

THEOREMS_DEPEND_ON = []
COMP_HIST = 61


PW_BASE = 100000


def mkmsg(t, eot, uid):
    import mido
    if eot:
        return mido.MetaMessage('end_of_track', time=t)
    if uid >= PW_BASE:
        # a pitchwheel message, identified by its channel only: its pitch is free for edits between values that Python hashes alike (-1 and -2)
        return mido.Message('pitchwheel', channel=(uid - PW_BASE) % 16, pitch=-1, time=t)
    if uid % 4 == 0:
        return mido.MetaMessage('set_tempo', tempo=100000 + 16 * uid, time=t)      # tempo changes anywhere in the file
    return mido.Message('note_on', channel=(uid >> 7) & 15, note=uid & 127, velocity=64, time=t)


def uid_of(m):
    if m.type == 'end_of_track':
        return None
    if m.type == 'pitchwheel':
        return PW_BASE + m.channel
    if m.type == 'set_tempo':
        return (m.tempo - 100000) // 16
    return (m.channel << 7) | m.note


def obs_ints(track):
    out = [len(track)]
    for m in track:
        u = uid_of(m)
        out += [m.time, 1 if u is None else 0, 0 if u is None else u]
    return out


def observe_all(mf):
    """everything the property names: merged_track, iteration (seconds), length, saved bytes"""
    res = {}
    def scribble(ms):
        """what was handed out belongs to the caller: edit it (time and a value), the file must not notice"""
        for m in ms:
            try:
                m.time = (m.time or 0) + 17
                if m.type == 'note_on':
                    m.velocity = (m.velocity + 1) % 128
                elif m.type == 'set_tempo':
                    m.tempo = m.tempo ^ 1
            except Exception:  # noqa: BLE001
                pass
    try:
        mt = mf.merged_track
        res['merged'] = [(m.time, repr(m)) for m in mt]
        scribble(mt)
    except Exception as e:  # noqa: BLE001
        res['merged'] = type(e).__name__
    try:
        ms = list(mf)
        res['iter'] = [(m.time, repr(m.copy(time=0))) for m in ms]
        scribble(ms)
    except Exception as e:  # noqa: BLE001
        res['iter'] = type(e).__name__
    try:
        res['length'] = mf.length
    except Exception as e:  # noqa: BLE001
        res['length'] = type(e).__name__
    try:
        b = io.BytesIO(); mf.save(file=b); res['save'] = b.getvalue()
    except Exception as e:  # noqa: BLE001
        res['save'] = type(e).__name__
    import mido.midifiles.midifiles as mm

    class T:
        sleep = staticmethod(lambda d: None)
        time = staticmethod(lambda: 0.0)
    saved = mm.time
    mm.time = T
    try:
        res['play'] = [repr(m.copy(time=0)) for m in mf.play(now=lambda: 0.0)]
    except Exception as e:  # noqa: BLE001
        res['play'] = type(e).__name__
    finally:
        mm.time = saved
    return res


def impl_hist(case):
    import mido
    ty, tpb, l = case[0], case[1], case[2:]
    mf = mido.MidiFile(type=1, ticks_per_beat=tpb)
    mf.type = ty
    out, fail, i, nobs = [], None, 0, 0
    if len(mf.tracks) != 0:
        fail = ('fresh-file-not-empty', 'a MidiFile built without tracks starts with %d track(s) (left over from files built earlier in the process)' % len(mf.tracks))
        del mf.tracks[:]
    try:
        while i < len(l):
            k = l[i]
            if k == 0:
                n = l[i + 1]
                tr = mido.MidiTrack(mkmsg(*l[i + 2 + 3 * j:i + 5 + 3 * j]) for j in range(n))
                mf.tracks.append(tr); i += 2 + 3 * n
            elif k == 1:
                if l[i + 1] < len(mf.tracks):
                    del mf.tracks[l[i + 1]]
                i += 2
            elif k == 2:
                mf.add_track(); i += 1
            elif k == 3:
                ti, j, t, b, u = l[i + 1:i + 6]
                if ti < len(mf.tracks):
                    mf.tracks[ti].insert(j, mkmsg(t, b, u))
                i += 6
            elif k == 4:
                ti, j = l[i + 1:i + 3]
                if ti < len(mf.tracks) and j < len(mf.tracks[ti]):
                    del mf.tracks[ti][j]
                i += 3
            elif k == 5:
                ti, j, t = l[i + 1:i + 4]
                if ti < len(mf.tracks) and j < len(mf.tracks[ti]):
                    mf.tracks[ti][j].time = t
                i += 4
            elif k == 10:
                ti, j, d = l[i + 1:i + 4]
                if ti < len(mf.tracks) and j + 1 < len(mf.tracks[ti]):
                    a_, b_ = mf.tracks[ti][j], mf.tracks[ti][j + 1]
                    a_.time += d
                    b_.time -= d
                i += 4
            elif k == 11:
                ti, j = l[i + 1:i + 3]
                if ti < len(mf.tracks) and j + 1 < len(mf.tracks[ti]):
                    tr = mf.tracks[ti]
                    tr[j], tr[j + 1] = tr[j + 1], tr[j]
                i += 3
            elif k == 12:
                ti = l[i + 1]
                if ti < len(mf.tracks):
                    mf.tracks[ti].reverse()
                i += 2
            elif k == 8:
                ti, j, v = l[i + 1:i + 4]
                if ti < len(mf.tracks) and j < len(mf.tracks[ti]):
                    m = mf.tracks[ti][j]
                    if m.type == 'set_tempo':
                        m.tempo = (m.tempo // 16) * 16 + v % 16
                    elif m.type == 'note_on':
                        m.velocity = v
                    elif m.type == 'pitchwheel':
                        m.pitch = -2 if m.pitch == -1 else (-1 if v % 2 else 64 * v - 8192)
                i += 4
            elif k == 6:
                mf.type = l[i + 1]; i += 2
            elif k == 7:
                mf.ticks_per_beat = l[i + 1]; i += 2
            elif k == 9:
                i += 1
                nobs += 1
                # vary which observation comes first, so that every one of them can be the one that fills a memo
                which = (nobs + len(l)) % 4
                if which == 1:
                    try: mf.length
                    except Exception: pass  # noqa: E701,BLE001
                elif which == 2:
                    try: list(mf)
                    except Exception: pass  # noqa: E701,BLE001
                try:
                    out += [0] + obs_ints(mf.merged_track) + [-9]
                except Exception as e:  # noqa: BLE001
                    out += [-1, core.exn_code(e), -9]
                if fail is None:
                    fresh = mido.MidiFile(type=1, ticks_per_beat=mf.ticks_per_beat, tracks=copy.deepcopy(mf.tracks))
                    fresh.type = mf.type
                    before = [[(m.time, repr(m)) for m in tr] for tr in mf.tracks]
                    a, b = observe_all(mf), observe_all(fresh)
                    if [[(m.time, repr(m)) for m in tr] for tr in mf.tracks] != before:
                        fail = ('observation-mutates', 'after history %r, observing the file (merged_track / iteration / length / play / save) changed its tracks from %r'
                                % (case[:60], str(before)[:200]))
                    for key in a:
                        if a[key] != b[key]:
                            fail = ('stale:' + key, 'after history %r the file answers %s = %r, a fresh file with the same contents %r'
                                    % (case[:60], key, str(a[key])[:120], str(b[key])[:120]))
                            break
    except Exception as e:  # noqa: BLE001
        out = [-1, core.exn_code(e)]
        fail = ('raises:' + type(e).__name__, 'history %r raised %r' % (case[:60], e))
    return out, fail, 'obs=%d' % min(nobs, 6)


def job(j):
    tag, comp, cases = j
    return tag, core.eval_cases(comp, cases, impl_hist, repeat=30)


def random_history(rng):
    ty = rng.choice([0, 1, 1, 1, 2])
    case = [ty, rng.choice([96, 480, 1000])]
    uid = [0]

    def ev():
        uid[0] += 1
        return [rng.choice([0, 0, 1, 5, 96, 480]), 1 if rng.random() < 0.15 else 0, PW_BASE + rng.randrange(16) if rng.random() < 0.15 else uid[0]]
    nt = 0
    for _ in range(rng.randrange(2, 16)):
        r = rng.random()
        if r < 0.2 or nt == 0:
            n = rng.randrange(0, 5)
            case += [0, n] + [x for _ in range(n) for x in ev()]; nt += 1
        elif r < 0.27:
            case += [1, rng.randrange(nt)]; nt -= 1
        elif r < 0.34:
            case += [2]; nt += 1
        elif r < 0.46:
            case += [3, rng.randrange(nt), rng.randrange(0, 4)] + ev()
        elif r < 0.52:
            case += [9, 8, rng.randrange(nt), rng.randrange(0, 3), rng.randrange(128), 9]     # observe, edit a value in place, observe
        elif r < 0.6:
            case += [4, rng.randrange(nt), rng.randrange(0, 3)]
        elif r < 0.72:
            ti_ = rng.randrange(nt)
            case += [5, ti_, rng.randrange(0, 3), rng.choice([0, 7, 100])]
            if rng.random() < 0.1:
                # times that Python hashes alike: 0 and 2**61 - 1
                case += [9, 5, ti_, rng.randrange(0, 3), rng.choice([0, 2 ** 61 - 1])]
            if rng.random() < 0.5:
                case += [5, ti_, rng.randrange(0, 3), rng.choice([0, 7, 100])]
        elif r < 0.76:
            case += [8, rng.randrange(nt), rng.randrange(0, 3), rng.randrange(128)]
        elif r < 0.77:
            case += [6, rng.choice([0, 1, 1, 2])]
        elif r < 0.8:
            case += [7, rng.choice([96, 480])]
        elif r < 0.86:
            # edits that keep every track's length and total ticks: ticks moved between neighbours, neighbours swapped, a track reversed
            q = rng.random()
            if q < 0.5:
                case += [10, rng.randrange(nt), rng.randrange(0, 3), rng.choice([1, 5, 96, -1, -96])]
            elif q < 0.8:
                case += [11, rng.randrange(nt), rng.randrange(0, 3)]
            else:
                case += [12, rng.randrange(nt)]
        else:
            case += [9]
    return case + [9]


def run(out):
    rng = random.Random(out.seed)
    n = 1500 if out.tier == 'quick' else 150000
    cases = [[1, 480, 2, 3, 0, 0, 96, 0, 1, 9, 3, 0, 1, 96, 0, 2, 9],            # add_track, insert, observe, insert, observe
             [1, 480, 0, 1, 96, 0, 1, 9, 0, 1, 200, 0, 2, 9],                     # observe, tracks.append, observe
             [1, 480, 0, 2, 96, 0, 1, 96, 0, 2, 9, 5, 0, 1, 500, 9, 4, 0, 0, 9],  # observe, edit a time, observe, delete, observe
             [1, 480, 0, 2, 10, 0, 1, 100, 0, 2, 0, 2, 50, 0, 3, 60, 0, 4, 9, 10, 0, 0, 96, 9, 11, 1, 0, 9, 12, 0, 9],   # observe, move ticks, swap, reverse
             [1, 480, 0, 3, 5, 0, 1, 100, 1, 2, 30, 0, 3, 9, 9],                  # a mid-track end_of_track with a delta: observe twice
             [1, 480, 0, 2, 5, 0, PW_BASE + 3, 7, 0, 2, 9, 8, 0, 0, 1, 9, 8, 0, 0, 1, 9],   # a pitch edited from -1 to -2 and back (equal hashes)
             [1, 480, 0, 2, 0, 0, 1, 7, 0, 2, 9, 5, 0, 0, 2 ** 61 - 1, 9, 5, 0, 0, 0, 9]]   # a time edited from 0 to 2**61-1 and back (equal hashes)
    # a tempo edited in place between two observations (no delta, count or resolution changes), whichever observation came first
    for pad in range(4):
        cases.append([1, 480] + [7, 480] * pad + [0, 3, 0, 0, 4, 96, 0, 1, 96, 0, 2, 9, 8, 0, 0, 5, 9, 8, 0, 0, 9, 9])
        cases.append([1, 480] + [7, 480] * pad + [0, 2, 10, 0, 8, 50, 0, 3, 0, 1, 0, 0, 12, 9, 8, 1, 0, 3, 9])
    cases += [random_history(rng) for _ in range(n)]
    for tag, rec in core.pmap(job, chunk_jobs(cases, 'history', COMP_HIST)):
        core.merge_into(out, rec, tag)
    out.rule = ('%d histories of 2-16 documented edits on one MidiFile (tracks.append, del tracks[i], add_track(), track.insert, del track[j], msg.time = t, msg.velocity / msg.tempo / msg.pitch = v (incl. edits between values with equal hashes: pitch -1/-2, time 0/2**61-1), '
                'type, ticks_per_beat) interleaved with observations; at each observation merged_track is compared with the model, and merged_track, '
                'iteration, length, play and the saved bytes are compared with a freshly built MidiFile holding a deep copy of the same contents; the order of '
                'the first observation (length / iteration / merged_track) is varied; the messages an observation hands out are edited by the caller (the file must not change). Non-trivial: every history; distinct by content.' % len(cases))
    out.sample({'component': 'history', 'case': cases[0]})
    out.sample({'component': 'history', 'case': cases[10][:50]})
    core.kernel_crosscheck(out, [(COMP_HIST, c) for c in rng.sample(cases, 100)], 'C16')
    out.assumptions += ['messages are identified by a unique id carried in their attributes; the model carries the id along',
                        'edits through attributes other than time (note, velocity, ...) do not influence merging and are represented by the time edit']
