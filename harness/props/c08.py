"""C08 — file bytes conform to the Standard MIDI File format in both directions."""
import random

import core
from props import smf_common as sc

THEOREMS_DEPEND_ON = ['Gen/AgreeCodec.v', 'Gen/AgreeMeta.v']
COMP_REF, COMP_ENC, COMP_RAW = 50, 51, 52


def storable_file(rng):
    f = sc.random_file(rng, 0)
    if f['type'] == 0 and len(f['tracks']) != 1:
        f['type'] = 1
    return f


def check_write(f):
    """bytes of the real save() must decode, under the reference decoder, to the in-memory header and events (normalised),
    with minimal variable-length quantities and canonical running status: i.e. equal the reference encoder's canonical output"""
    out, bs, exc = sc.run_save(f, 0)
    if bs is None:
        return ('save-raises', 'save raised %r for %r' % (exc, str(f)[:300])), None
    case = sc.file_case(f)
    ref = core.model_run([(COMP_REF, list(bs)), (COMP_RAW, [0, 1] + case),
                          (COMP_ENC, [0, 0, len(f['tracks'])] + [0] * len(f['tracks']) + norm_case(f))])
    dec, want, canon = ref
    if dec != want:
        return ('ref-decode', 'the reference decoder reads the saved bytes of %r as %r, expected %r' % (str(f)[:300], dec[:60], want[:60])), bs
    if canon[0] != 0 or canon[2:] != list(bs):
        return ('not-canonical', 'saved bytes of %r differ from the canonical standard encoding (minimal quantities, running status only '
                'between equal channel statuses, exact chunk lengths)' % (str(f)[:300],)), bs
    return None, bs


def norm_case(f):
    g = dict(f, tracks=[sc.normalise_track(tr) for tr in f['tracks']])
    return sc.file_case(g)


def random_choices(rng, f, legal_only=True):
    css = []
    for tr in f['tracks']:
        cs = []
        for _ in tr:
            cs.append((rng.choice([0, 0, 0, 1, 2, 3]), rng.choice([0, 0, 1, 2]), rng.choice([0, 1, 1])))
        css.append(cs)
    return css


def enc_case(f, css, extra):
    out = [0, len(extra)] + list(extra) + [len(css)]
    for cs in css:
        out.append(len(cs))
        for a, b, c in cs:
            out += [a, b, c]
    return out + sc.file_case(f)


def check_read(rng, f, clipcase=False):
    """a legal alternative encoding of f must load to exactly f: clip on/off, debug on/off"""
    css = random_choices(rng, f)
    extra = [rng.randrange(256) for _ in range(rng.choice([0, 0, 1, 2, 6]))]
    enc = core.model_run([(COMP_ENC, enc_case(f, css, extra))])[0]
    if enc[0] != 0:
        return ('enc-with', 'reference encoder refused %r' % (str(f)[:200],)), 0
    bs = enc[2:]
    want = [0] + sc.file_case(f)
    n = 0
    for clip in (False, True):
        for debug in (False, True):
            n += 1
            lo, mf, exc = sc.run_load(bs, 0, clip, debug)
            if lo != want:
                return ('read-legal-encoding', 'a legal encoding (choices %r, header +%d) of %r loads (clip=%r debug=%r) as %r'
                        % (css, len(extra), str(f)[:300], clip, debug, exc if mf is None else lo[:80])), n
    model = core.model_run([(sc.COMP_LOAD, [0, 0] + bs)])[0]
    if model != want:
        return ('model-read', 'the model reader differs on a legal encoding of %r' % (str(f)[:200],)), n
    return None, n


def check_clip(rng):
    """data bytes above 127 become 127 with clip=True and raise an error without; everything else is untouched"""
    f = {'type': 1, 'tpb': 96, 'tracks': [sc.random_track(rng, 0, n=rng.randrange(1, 8))]}
    chans = [i for i, (tv, ev) in enumerate(f['tracks'][0]) if ev[0] == 0 and ev[1] < 6]
    if not chans:
        return None, 0
    i = rng.choice(chans)
    tv, ev = f['tracks'][0][i]
    ev = list(ev)
    j = rng.randrange(3, len(ev))
    high = rng.choice([128, 200, 255])
    bad = list(ev); bad[j] = high
    clamped = list(ev); clamped[j] = 127
    g = {'type': 1, 'tpb': 96, 'tracks': [list(f['tracks'][0])]}
    g['tracks'][0][i] = (tv, bad)
    h = {'type': 1, 'tpb': 96, 'tracks': [list(f['tracks'][0])]}
    h['tracks'][0][i] = (tv, clamped)
    enc = core.model_run([(COMP_ENC, enc_case(g, [[(0, 0, 0)] * len(g['tracks'][0])], []))])[0]
    if enc[0] != 0:
        return None, 0
    bs = enc[2:]
    lo_f, mf_f, e_f = sc.run_load(bs, 0, False)
    lo_t, mf_t, e_t = sc.run_load(bs, 0, True)
    if mf_f is not None:
        return ('clip-off-accepts', 'a data byte %d loads without clip: %r' % (high, str(g)[:200])), 2
    if lo_t != [0] + sc.file_case(h):
        return ('clip-on', 'with clip=True a data byte %d in %r loads as %r' % (high, str(g)[:200], e_t if mf_t is None else lo_t[:60])), 2
    m = core.model_run([(sc.COMP_LOAD, [0, 0] + bs), (sc.COMP_LOAD, [0, 1] + bs)])
    if m[0] != [-1, 0] or m[1] != lo_t:
        return ('model-clip', 'the model reader differs on the clip case %r' % (str(g)[:200],)), 2
    return None, 2


def job(j):
    kind, seed, n = j
    rng = random.Random(seed)
    rec = {'n': 0, 'dis': [], 'fail': [], 'dist': {}, 'hashes': set(), 'ndis': 0, 'nfail': 0}
    for i in range(n):
        if kind == 'write':
            f = storable_file(rng)
            fail, bs = check_write(f)
            rec['n'] += 1
            rec['hashes'].add(hash(str(f)))
            sample = f
        elif kind == 'read':
            f = storable_file(rng)
            f = dict(f, tracks=[sc.normalise_track(tr) for tr in f['tracks']])
            fail, k = check_read(rng, f)
            rec['n'] += k
            rec['hashes'].add(hash(str(f)))
            sample = f
        else:
            fail, k = check_clip(rng)
            rec['n'] += k
            rec['hashes'].add(hash((seed, i)))
            sample = None
        rec['dist'][kind] = rec['dist'].get(kind, 0) + 1
        if fail:
            rec['nfail'] += 1
            if len(rec['fail']) < 10:
                rec['fail'].append((fail[0], fail[1], {'component': kind, 'seed': seed, 'index': i}))
    return kind, rec


def run(out):
    rng = random.Random(out.seed)
    n = 60 if out.tier == 'quick' else 800
    jobs = []
    for k in range(core.NPROC):
        jobs.append(('write', out.seed * 1000 + k, n))
        jobs.append(('read', out.seed * 2000 + k, n))
        jobs.append(('clip', out.seed * 3000 + k, n))
    for tag, rec in core.pmap(job, jobs):
        core.merge_into(out, rec, tag)
    out.rule = ('write direction: generated storable files saved by the real save(); the bytes go through the reference SMF decoder (independent of '
                'the reader model) and must give the in-memory header and normalised events, and must equal the reference encoder\'s canonical output '
                '(minimal quantities, running status exactly between equal consecutive channel statuses, FF 2F 00 last, exact chunk lengths); read '
                'direction: the reference encoder renders each file with random legal choices (0-3 padding bytes on any quantity, running status used '
                'or not, header chunk 6..12 bytes) and the real reader must return exactly the file for clip on/off x debug on/off; clip clause: a '
                'data byte 128..255 injected into a channel message. Non-trivial: every generated file; distinct by content.')
    f = storable_file(rng)
    out.sample({'component': 'read', 'file': str(f)[:300], 'choices': str(random_choices(rng, f))[:200]})
    out.assumptions += ['the debug clause covers the returned file; the printed debug text is not compared',
                        'system common messages (F1 F2 F3 F6) are stored by mido as full raw events; the reference decoder accepts them as such']
    # kernel cross-check of the reference components on a few cases
    cases = []
    for _ in range(20):
        f = storable_file(rng)
        _, bs, _ = sc.run_save(f, 0)
        if bs is not None and len(bs) < 500:
            cases.append((COMP_REF, list(bs)))
    core.kernel_crosscheck(out, cases, 'C08')
