"""C09 — the meta message codec accepts and preserves every documented value."""
import random

import core
from props import smf_common as sc
from props.parser_common import chunk_jobs

THEOREMS_DEPEND_ON = ['Gen/AgreeMeta.v']
COMP_OK = 45


def py_varint_decode(bs):
    """independent reader of a variable-length quantity: (value, number of bytes)"""
    v = 0
    for i, b in enumerate(bs):
        v = v * 128 + (b & 0x7f)
        if b < 0x80:
            return v, i + 1
    raise ValueError('unterminated')


def documented(mi):
    """the documented domain of docs/meta_message_types.rst, the harness's own table"""
    k = mi[0]
    r = lambda x, lo, hi: lo <= x <= hi
    if k == 0:
        return r(mi[1], 0, 65535)
    if k == 1:
        return True
    if k in (2, 3):
        return r(mi[1], 0, 255)
    if k == 4:
        return True
    if k == 5:
        return r(mi[1], 0, 16777215)
    if k == 6:
        return r(mi[1], 0, 3) and r(mi[2], 0, 255) and r(mi[3], 0, 59) and r(mi[4], 0, 59) and r(mi[5], 0, 255) and r(mi[6], 0, 99)
    if k == 7:
        d = mi[2]
        return r(mi[1], 0, 255) and r(mi[3], 0, 255) and r(mi[4], 0, 255) and 1 <= d <= 2 ** 255 and bin(d).count('1') == 1
    if k == 8:
        return r(mi[1], -7, 7) and r(mi[2], 0, 1)
    if k == 9:
        return all(r(b, 0, 255) for b in mi[2:])
    return True


def impl_meta(case):
    """case = [cs] + meta encoding: constructor, bytes(), from_bytes(bytes())"""
    from mido.midifiles.meta import MetaMessage, meta_charset
    cs, mi = case[0], case[1:]
    fail = None
    doc = documented(mi)
    key = 'meta%d' % mi[0]
    try:
        m = sc.meta_obj(mi)
    except (ValueError, TypeError) as e:
        if doc and not (mi[0] == 8 and (mi[1], mi[2]) not in sc.KEY_OF):
            fail = ('rejects-documented:' + key, 'constructor rejected the documented value %r: %r' % (mi[:12], e))
        return [-1, 1], fail, 'ctor-rejected'
    except Exception as e:  # noqa: BLE001
        return [-1, core.exn_code(e)], ('ctor-raises:' + type(e).__name__, 'constructor raised %r for %r' % (e, mi[:12])), 'ctor-other'
    if not doc:
        fail = ('accepts-undocumented:' + key, 'constructor accepted a value outside the documented domain: %r' % (mi[:12],))
    try:
        with meta_charset(sc.CHARSETS[cs]):
            bs = m.bytes()
        out = [0, len(bs)] + list(bs)
    except Exception as e:  # noqa: BLE001
        out = [-1, core.exn_code(e)]
        bs = None
        text_fail = mi[0] == 1 and any(c > (255 if cs == 0 else 127) for c in mi[3:])
        if not (text_fail and isinstance(e, ValueError)) and fail is None:
            fail = ('bytes-raises:' + key, 'bytes() raised %r for %r' % (e, mi[:12]))
    if bs is not None and fail is None:
        if not (len(bs) >= 3 and bs[0] == 0xff and all(isinstance(b, int) and 0 <= b <= 255 for b in bs)):
            fail = ('not-bytes:' + key, 'bytes() of %r is %r' % (mi[:12], bs[:20]))
        else:
            try:
                n, k = py_varint_decode(bs[2:])
                minimal = (k == 1) or bs[2] != 0x80
                if n != len(bs) - 2 - k or not minimal:
                    fail = ('length-field:' + key, 'length field of %r: %r for %d payload bytes' % (mi[:12], bs[2:2 + k], len(bs) - 2 - k))
            except ValueError:
                fail = ('length-field:' + key, 'unterminated length field in %r' % (bs[:10],))
        if fail is None:
            try:
                with meta_charset(sc.CHARSETS[cs]):
                    m2 = MetaMessage.from_bytes(bs)
                if sc.meta_ints(m2) != sc.meta_ints(m) or m2.time != 0:
                    hours = mi[0] == 6 and mi[2] >= 32
                    unk_known = mi[0] == 10 and mi[1] in sc.KNOWN_TYPE_BYTES
                    if hours:
                        fail = ('smpte_offset.hours>=32', 'from_bytes(bytes()) of %r gives %r' % (m, m2))
                    elif not unk_known:
                        fail = ('from_bytes-differs:' + key, 'from_bytes(bytes()) of %r gives %r' % (m, m2))
            except Exception as e:  # noqa: BLE001
                hours = mi[0] == 6 and mi[2] >= 32
                unk_known = mi[0] == 10 and mi[1] in sc.KNOWN_TYPE_BYTES      # outside the round-trip domain
                if not unk_known:
                    fail = ('smpte_offset.hours>=32' if hours else 'from_bytes-raises:' + key, 'from_bytes(bytes()) of %r raised %r' % (m, e))
        if fail is None and len(bs) < 5000 and not (mi[0] == 10 and mi[1] in sc.KNOWN_TYPE_BYTES) and not (mi[0] == 6 and mi[2] >= 32):
            # ... or reading them from a track: with the reader's options too (clip only concerns the data bytes of channel messages)
            import io
            import mido
            ev = bytes([5]) + bytes(bs) + bytes([0, 0xFF, 0x2F, 0])
            data = b'MThd' + (6).to_bytes(4, 'big') + b'\x00\x01\x00\x01\x01\xe0' + b'MTrk' + len(ev).to_bytes(4, 'big') + ev
            for clip in (False, True):
                try:
                    mf = mido.MidiFile(file=io.BytesIO(data), charset=sc.CHARSETS[cs], clip=clip)
                    got = mf.tracks[0][0]
                    if sc.meta_ints(got) != sc.meta_ints(m) or got.time != 5:
                        fail = ('track-read-differs:' + key, 'the bytes of %r read from a track (clip=%r) give %r' % (m, clip, got))
                except Exception as e:  # noqa: BLE001
                    fail = ('track-read-raises:' + key, 'the bytes of %r read from a track (clip=%r) raised %r' % (m, clip, e))
                if fail is not None:
                    break
    if fail is None and mi[0] <= 9 and type(m).__name__ == 'MetaMessage':
        # the constructor also accepts the type with all, or all but one, of its values left to their defaults: those messages encode and
        # decode like any other - the second of a type like the first
        try:
            first = next((a for a in vars(m) if a not in ('type', 'time')), None)
            for kw in ({}, {first: getattr(m, first)} if first else {}):
                d = MetaMessage(m.type, **kw)
                with meta_charset(sc.CHARSETS[cs]):
                    bd = d.bytes()
                    d2 = MetaMessage.from_bytes(bd)
                if not (len(bd) >= 3 and bd[0] == 0xff) or sc.meta_ints(d2) != sc.meta_ints(d) or set(vars(d)) != set(vars(m)):
                    if not (mi[0] == 6 and kw and mi[2] >= 32):
                        fail = ('defaults-differ:' + key, 'MetaMessage(%r, **%r) is %r, encodes to %r and decodes to %r' % (m.type, kw, vars(d), bd[:12], d2))
        except Exception as e:  # noqa: BLE001
            text_fail = mi[0] == 1 and any(c > (255 if cs == 0 else 127) for c in mi[3:])
            if not (text_fail and isinstance(e, ValueError)):
                fail = ('defaults-raise:' + key, 'MetaMessage(%r) with values left to their defaults: %r' % (m.type, e))
    return out, fail, 'meta%d' % mi[0]


def impl_from_bytes(case):
    from mido.midifiles.meta import MetaMessage, meta_charset
    cs, bs = case[0], case[1:]
    try:
        with meta_charset(sc.CHARSETS[cs]):
            m = MetaMessage.from_bytes(list(bs))
        return [0] + sc.meta_ints(m), None, 'from_bytes:ok'
    except Exception:  # noqa: BLE001
        return [-1, 0], None, 'from_bytes:error'


def impl_ok(case):
    """does the constructor accept this (integer-valued) meta message?  compared with the model's meta_ok"""
    try:
        sc.meta_obj(case)
        acc = 1
    except (ValueError, TypeError):
        acc = 0
    m = core.model_run([(COMP_OK, case)])[0]
    return [acc, m[1]], None, 'accepts' if acc else 'rejects'


def job(j):
    tag, comp, cases = j
    if tag == 'meta':
        # the model's meta_bytes answers for accepted values only: rejected constructions are compared through meta_ok
        rec = {'n': len(cases), 'dis': [], 'fail': [], 'dist': {}, 'hashes': set(), 'ndis': 0, 'nfail': 0}
        ios, keep = [], []
        for c in cases:
            io, fail, t = impl_meta(c)
            rec['dist'][t] = rec['dist'].get(t, 0) + 1
            rec['hashes'].add(hash(tuple(c)))
            if fail:
                rec['nfail'] += 1
                if len(rec['fail']) < 20:
                    rec['fail'].append((fail[0], fail[1], {'component': 'meta', 'case': c[:60]}))
            ios.append(io)
        mos = core.model_run([(sc.COMP_META_BYTES, c) for c in cases])
        oks = core.model_run([(COMP_OK, c[1:]) for c in cases])
        for c, io, mo, ok in zip(cases, ios, mos, oks):
            expect = mo if ok[0] == 1 else [-1, 1]
            if io != expect:
                rec['ndis'] += 1
                if len(rec['dis']) < 20:
                    rec['dis'].append((sc.COMP_META_BYTES, c[:80], io[:40], expect[:40]))
        return tag, rec
    return tag, core.eval_cases(comp, cases, impl_from_bytes, repeat=40)


def text_meta(n, cs=0, tb=1):
    return [1, tb, n] + [(65 + (i * 7) % 26) if cs else (32 + (i * 11) % 224) for i in range(n)]


def _assign_data(mido, value):
    m = mido.MetaMessage('sequencer_specific', data=[1])
    m.data = value
    return m


def ill_typed_and_limit(out, rng):
    """implementation against the statement, for values the integer wire cannot carry: (a) items and attribute values that are not
    integers (floats, also integral ones, Fraction, str, None, bool stays an int) at every position of a sequencer_specific payload and on
    every integer attribute: whatever the constructor or an assignment accepts must encode to bytes; (b) text / data payloads of exactly
    the reader's limit, one below and one above, through bytes(), from_bytes and the file reader"""
    import io
    from fractions import Fraction
    import mido
    from mido.midifiles.midifiles import MAX_MESSAGE_LENGTH
    n = 0

    def judge(what, make):
        nonlocal n
        n += 1
        try:
            m = make()
        except (ValueError, TypeError):
            return
        except Exception as e:  # noqa: BLE001
            out.failures.append(('check-raises:' + type(e).__name__, '%s raised %r' % (what, e), {'component': 'ill-typed', 'what': what}))
            return
        try:
            bs = m.bytes()
            ok = all(isinstance(b, int) and not isinstance(b, bool) and 0 <= b <= 255 for b in bs) and mido.MetaMessage.from_bytes(bs) == m
        except Exception as e:  # noqa: BLE001
            ok = False
            bs = repr(e)
        if not ok:
            out.failures.append(('accepted-not-bytes', '%s was accepted but encodes to %r' % (what, bs if isinstance(bs, str) else bs[:12]),
                                 {'component': 'ill-typed', 'what': what}))
    bad_items = [1.5, 2.0, 0.0, 255.0, Fraction(15, 2), Fraction(4, 2), '7', None, 256, -1, 1e3, float('nan')]
    for bad in bad_items:
        for good in ([], [0], [255], [0, 255], [7, 9], [0, 128, 255]):
            for pos in range(len(good) + 1):
                data = good[:pos] + [bad] + good[pos:]
                judge('MetaMessage(sequencer_specific, data=%r)' % (data,), lambda data=data: mido.MetaMessage('sequencer_specific', data=data))

                def assign(data=data):
                    m = mido.MetaMessage('sequencer_specific', data=[1])
                    m.data = data
                    return m
                judge('sequencer_specific.data = %r' % (data,), assign)
    # one-shot iterables as the payload (constructor, assignment, copy): accepted means the items arrive, all of them
    import itertools
    for items in ([1, 2, 3], [0, 255], [], [7] * 40):
        for what, mk in (('iter', lambda: iter(items)), ('generator', lambda: (b for b in items)), ('chain', lambda: itertools.chain(items[:1], items[1:])),
                         ('map', lambda: map(int, items)), ('reversed', lambda: reversed(items[::-1])), ('range', lambda: range(len(items))), ('bytes', lambda: bytes(items))):
            want = tuple(items) if what != 'range' else tuple(range(len(items)))
            for route, build in (('constructor', lambda: mido.MetaMessage('sequencer_specific', data=mk())),
                                 ('assignment', lambda: _assign_data(mido, mk())),
                                 ('copy', lambda: mido.MetaMessage('sequencer_specific', data=[5]).copy(data=mk()))):
                n += 1
                try:
                    m = build()
                except (ValueError, TypeError):
                    continue
                except Exception as e:  # noqa: BLE001
                    out.failures.append(('check-raises:' + type(e).__name__, 'sequencer_specific data from a %s (%s) raised %r' % (what, route, e), {'component': 'ill-typed'}))
                    continue
                if tuple(m.data) != want or m.bytes()[-len(want):] != list(want)[-len(want):] and want:
                    out.failures.append(('iterable-payload-lost', 'sequencer_specific data given as a %s over %r (%s) arrived as %r' % (what, items[:6], route, tuple(m.data)[:6]),
                                         {'component': 'ill-typed', 'what': what, 'route': route}))
    ints = [('set_tempo', 'tempo'), ('sequence_number', 'number'), ('channel_prefix', 'channel'), ('midi_port', 'port'), ('time_signature', 'numerator'),
            ('time_signature', 'clocks_per_click'), ('smpte_offset', 'minutes'), ('smpte_offset', 'sub_frames')]
    for typ, attr in ints:
        for bad in [1.5, 2.0, Fraction(3, 1), '3', None, [3], (3,)]:
            judge('MetaMessage(%s, %s=%r)' % (typ, attr, bad), lambda typ=typ, attr=attr, bad=bad: mido.MetaMessage(typ, **{attr: bad}))
    # the reader's limit
    for size in (MAX_MESSAGE_LENGTH - 1, MAX_MESSAGE_LENGTH, MAX_MESSAGE_LENGTH + 1):
        for make in (lambda k: mido.MetaMessage('text', text='a' * k, time=3), lambda k: mido.MetaMessage('sequencer_specific', data=[7] * k, time=3)):
            n += 1
            m = make(size)
            try:
                bs = m.bytes()
                back = mido.MetaMessage.from_bytes(bs)
                if not (back == m.copy(time=0)):
                    out.failures.append(('limit-roundtrip', 'a %s payload of %d bytes does not survive bytes()/from_bytes' % (m.type, size), {'component': 'limit', 'size': size}))
                    continue
                ev = bytes([3]) + bytes(bs) + bytes([0, 0xFF, 0x2F, 0])
                data = b'MThd' + (6).to_bytes(4, 'big') + b'\x00\x01\x00\x01\x01\xe0' + b'MTrk' + len(ev).to_bytes(4, 'big') + ev
                try:
                    mf = mido.MidiFile(file=io.BytesIO(data))
                    loaded = mf.tracks[0][0]
                    if size > MAX_MESSAGE_LENGTH:
                        out.failures.append(('limit-accepted', 'a payload of %d bytes, above the limit, was read from a track' % size, {'component': 'limit', 'size': size}))
                    elif not (loaded == m):
                        out.failures.append(('limit-roundtrip', 'a %s payload of %d bytes read from a track differs' % (m.type, size), {'component': 'limit', 'size': size}))
                except OSError as e:
                    if size <= MAX_MESSAGE_LENGTH:
                        out.failures.append(('limit-refused', 'a %s payload of %d bytes (within the limit of %d) is refused by the file reader: %r'
                                             % (m.type, size, MAX_MESSAGE_LENGTH, e), {'component': 'limit', 'size': size}))
            except Exception as e:  # noqa: BLE001
                out.failures.append(('limit-raises:' + type(e).__name__, 'a %s payload of %d bytes: %r' % (m.type, size, e), {'component': 'limit', 'size': size}))
    # what the encoders hand out belongs to the caller: using it (decoding it, appending to it, emptying it) must not change what a later
    # call returns - neither for the length prefix helper nor for bytes() of a message
    from mido.midifiles import meta as meta_mod

    def ref_vlq(v):
        groups = [v & 0x7f]
        v >>= 7
        while v:
            groups.append((v & 0x7f) | 0x80)
            v >>= 7
        return groups[::-1]
    for v in [0, 1, 127, 128, 129, 255, 300, 16383, 16384, 2 ** 21 - 1, 2 ** 21, 2 ** 28 - 1]:
        for use in ('decode', 'append', 'clear', 'overwrite'):
            n += 1
            try:
                a = meta_mod.encode_variable_int(v)
                if list(a) != ref_vlq(v):
                    out.failures.append(('vlq-wrong', 'encode_variable_int(%d) = %r, expected %r' % (v, list(a), ref_vlq(v)), {'component': 'fresh-results', 'value': v}))
                    continue
                try:
                    if use == 'decode':
                        meta_mod.decode_variable_int(a)
                    elif use == 'append':
                        a.append(0)
                    elif use == 'clear':
                        del a[:]
                    else:
                        a[0] = 0x7f
                except (TypeError, AttributeError):
                    pass                                  # an immutable result cannot be shared harmfully
                b = meta_mod.encode_variable_int(v)
                if list(b) != ref_vlq(v):
                    out.failures.append(('vlq-shared-result', 'after the caller used (%s) the list returned by encode_variable_int(%d), the next call returns %r, expected %r'
                                         % (use, v, list(b), ref_vlq(v)), {'component': 'fresh-results', 'value': v, 'use': use}))
                if v <= 20000:
                    m = mido.MetaMessage('text', text='x' * v)
                    bs = m.bytes()
                    k = len(ref_vlq(v))
                    if bs[:2] != [0xff, 0x01] or bs[2:2 + k] != ref_vlq(v) or len(bs) != 2 + k + v:
                        out.failures.append(('length-field:meta1', 'a text of %d characters encodes with the header %r (after the caller used an earlier length prefix: %s)'
                                             % (v, bs[:6], use), {'component': 'fresh-results', 'value': v, 'use': use}))
                    bs.append(7); del bs[:3]
                    if m.bytes()[:2 + k] != [0xff, 0x01] + ref_vlq(v):
                        out.failures.append(('bytes-shared-result', 'bytes() of a text of %d characters changed after the caller modified the list an earlier call returned' % v,
                                             {'component': 'fresh-results', 'value': v}))
            except Exception as e:  # noqa: BLE001
                out.failures.append(('fresh-results-raises:' + type(e).__name__, 'length prefix of %d (%s): %r' % (v, use, e), {'component': 'fresh-results', 'value': v}))
    # text under charsets in which ASCII characters are NOT the ASCII bytes (utf-16, utf-32, cp500, utf-7) and under multi-byte ones: the payload
    # is the text in that charset (Python's codec is the reference), and decoding the bytes - from_bytes, or read from a track - gives the text back
    import io
    for cs in ('utf-16', 'utf-16-le', 'utf-32', 'cp500', 'utf-7', 'utf-8', 'shift_jis', 'cp1252'):
        for text in ('', 'a', 'plain ascii', 'Track 1', 'caf\u00e9', 'na\u00efve \u65e5\u672c', '\u20ac 5'):
            try:
                want = list(text.encode(cs))
            except UnicodeEncodeError:
                continue
            for typ, attr in (('text', 'text'), ('track_name', 'name'), ('lyrics', 'text'), ('device_name', 'name')):
                n += 1
                try:
                    with meta_mod.meta_charset(cs):
                        m = mido.MetaMessage(typ, **{attr: text})
                        bs = m.bytes()
                        k = len(ref_vlq(len(want)))
                        if bs[:2 + k] != [0xff, bs[1]] + ref_vlq(len(want)) or bs[2 + k:] != want:
                            out.failures.append(('charset-payload', 'under charset %s the %s %r encodes to %r, the text in that charset is %r' % (cs, typ, text, bs[2 + k:][:20], want[:20]),
                                                 {'component': 'charsets', 'charset': cs, 'text': text}))
                            continue
                        back = mido.MetaMessage.from_bytes(bs)
                    ev = bytes([0]) + bytes(bs) + bytes([0, 0xFF, 0x2F, 0])
                    data = b'MThd' + (6).to_bytes(4, 'big') + b'\x00\x01\x00\x01\x01\xe0' + b'MTrk' + len(ev).to_bytes(4, 'big') + ev
                    got = mido.MidiFile(file=io.BytesIO(data), charset=cs).tracks[0][0]
                    if getattr(back, attr) != text or getattr(got, attr) != text or back.type != typ or got.type != typ:
                        out.failures.append(('charset-roundtrip', 'under charset %s the %s %r decodes to %r (from_bytes) / %r (read from a track)' % (cs, typ, text, getattr(back, attr), getattr(got, attr)),
                                             {'component': 'charsets', 'charset': cs, 'text': text}))
                except Exception as e:  # noqa: BLE001
                    out.failures.append(('charset-raises:' + type(e).__name__, 'under charset %s the %s %r: %r' % (cs, typ, text, e), {'component': 'charsets', 'charset': cs, 'text': text}))
    out.evaluations += n
    out.components['ill-typed values and the reader limit (implementation against the statement)'] = {'cases': n}


def run(out):
    rng = random.Random(out.seed)
    cases = []
    add = lambda mi, cs=0: cases.append([cs] + mi)
    # exhaustive finite domains
    for e in range(256):
        add([7, 4, 2 ** e, 24, 8])
    for d in [0, 3, 5, 6, 7, 12, 2 ** 53 + 1, 2 ** 60 + 1, 2 ** 255 - 1, 2 ** 255 + 1, 2 ** 256, -4, 2 ** 100 + 2 ** 50] + [rng.randrange(3, 2 ** 64) | 1 | 2 for _ in range(200)]:
        add([7, 4, d, 24, 8])
    for v in (-1, 0, 255, 256):
        add([7, v, 4, 24, 8]); add([7, 4, 4, v, 8]); add([7, 4, 4, 24, v])
    for sf in range(-9, 10):
        for mode in (-1, 0, 1, 2):
            if (sf, mode) in sc.KEY_OF:
                add([8, sf, mode])
    seqs = range(65536) if out.tier == 'thorough' else list(range(0, 65536, 97)) + [65535, 255, 256, 257]
    for n in seqs:
        add([0, n])
    for n in (-1, 65536, 2 ** 32):
        add([0, n])
    for v in list(range(256)) + [-1, 256]:
        add([2, v]); add([3, v])
    for fr in range(4):
        for h in (0, 1, 23, 31, 32, 33, 127, 255, -1, 256):
            add([6, fr, h, 0, 0, 0, 0])
        for v in (0, 59, 60, -1):
            add([6, fr, 1, v, 0, 0, 0]); add([6, fr, 1, 0, v, 0, 0])
        for v in (0, 255, 256, -1):
            add([6, fr, 1, 0, 0, v, 0])
        for v in (0, 99, 100, -1):
            add([6, fr, 1, 0, 0, 0, v])
    for t in [0, 1, 255, 256, 65535, 65536, 500000, 16777215, 16777216, -1] + [rng.randrange(16777216) for _ in range(300)]:
        add([5, t])
    add([4])
    # text and data payloads at the variable-length-quantity boundaries
    lens = [0, 1, 2, 126, 127, 128, 129, 255, 256, 16383, 16384, 16385]
    if out.tier == 'thorough':
        lens += [999990, 1000000]
    for n in lens:
        for tb in (1, 3, 9):
            add(text_meta(n, 0, tb)); add(text_meta(n, 1, tb), 1)
        add([9, n] + [(i * 13) % 256 for i in range(n)])
        add([10, 0x60, n] + [(i * 17) % 256 for i in range(n)])
    add([1, 1, 2, 65, 300]); add([1, 1, 2, 65, 200], 1); add([1, 5, 1, 0x20ac])
    for item in (256, -1, 300):
        add([9, 2, 1, item])
    for tb in (0x08, 0x0a, 0x10, 0x7e, 0x55, 0x2f, 0x51):
        add([10, tb, 2, 1, 2])
    for _ in range(400 if out.tier == 'quick' else 4000):
        add(sc.random_meta(rng, 0, weird=True))
    # from_bytes on arbitrary byte strings: encodings, truncations, padded / wrong length fields
    fb = []
    for c in rng.sample(cases, 600):
        try:
            bs = sc.meta_obj(c[1:]).bytes()
        except Exception:  # noqa: BLE001
            continue
        if len(bs) > 600:
            continue
        fb.append([0] + list(bs))
        r = rng.random()
        if r < 0.3:
            fb.append([0] + list(bs[:-1]))
        elif r < 0.6:
            fb.append([0] + list(bs) + [rng.randrange(256)])
        else:
            b2 = list(bs); b2[rng.randrange(len(b2))] = rng.randrange(256); fb.append([0] + b2)
    fb += [[0], [0, 255], [0, 255, 1], [0, 255, 1, 0], [0, 255, 1, 1, 65], [0, 255, 1, 0x81, 0x00] + [65] * 128, [0, 255, 1, 0x80, 0x01, 65],
           [0, 255, 1, 0, 1, 65], [0, 0x90, 1, 2], [0, 255, 0x51, 2, 1, 2], [0, 255, 0, 1, 5], [0, 255, 0x54, 5, 0x80, 0, 0, 0, 0], [0, 255, 0x59, 2, 8, 0]]
    ill_typed_and_limit(out, rng)
    accept = [c[1:] for c in cases if c[1] not in (1, 9, 10)]
    jobs = chunk_jobs(cases, 'meta', sc.COMP_META_BYTES) + chunk_jobs(fb, 'from_bytes', sc.COMP_META_FROM_BYTES, 8)
    for tag, rec in core.pmap(job, jobs):
        core.merge_into(out, rec, tag)
    out.exhaustive = True
    out.extra['exhaustive_scope'] = ('256 denominator exponents, 30 key signatures, 256 channel_prefix and midi_port values, 4 frame rates x limits; '
                                     'sequence numbers %s' % ('all 65536' if out.tier == 'thorough' else 'every 97th + limits'))
    out.rule = ('meta message values (the finite documented domains completely, tempo limits + random, values just outside every range, non-power '
                'denominators incl. 2**53+1 and 2**255-1, text/data/unknown payloads of length 0,1,2,126..129,255,256,16383..16385%s): '
                'constructor acceptance compared with the documented-domain table and the model (meta_ok); bytes() compared byte for byte with the '
                'model; from_bytes(bytes()) must give the message back; MetaMessage.from_bytes on encodings, truncations, corruptions, padded length '
                'fields compared with the model. Non-trivial: non-zero content; distinct by encoded case.'
                % (', 999990, 1000000' if out.tier == 'thorough' else ''))
    out.sample({'component': 'meta', 'case': cases[300]})
    out.sample({'component': 'from_bytes', 'case': fb[3][:40]})
    core.kernel_crosscheck(out, [(sc.COMP_META_BYTES, c) for c in rng.sample([c for c in cases if len(c) < 300], 120)] +
                           [(sc.COMP_META_FROM_BYTES, c) for c in rng.sample(fb, 60)], 'C09')
    out.assumptions += ['non-integer attribute values (float, str, None for integer attributes) are exercised on the implementation only',
                        'UnknownMetaMessage performs no checks by design; a known type byte or non-byte items in it are outside the round-trip domain',
                        'charsets other than latin-1/ASCII are covered by C17']
