"""C06 — the parser resynchronises: a complete message is always recognised."""
import random

import canon
import core
from props import parser_common as pc

THEOREMS_DEPEND_ON = ['Gen/AgreeCodec.v']


def impl_resync(case):
    """case = [plen, P..., kind, attrs...]: parse_all(P + enc(M)) must be parse_all(P) + [M]; compared with the model on P+enc(M)."""
    import mido
    n = case[0]
    P, mi = case[1:1 + n], case[1 + n:]
    enc = canon.std_layout(mi)
    out, _, _ = pc.impl_parse(P + enc)
    fail = None
    try:
        ma, mb = mido.parser.parse_all(P), mido.parser.parse_all(P + enc)
        a = pc.msgs_out(ma)
        b = pc.msgs_out(mb)
        want = [a[0] + 1] + a[1:] + mi
        if b != want or any(x.time != 0 for x in ma + mb):
            fail = ('resync', 'prefix %r + %r: got %r (times %r), expected the messages of the prefix then the message' % (P, enc, b, [x.time for x in mb]))
        else:
            # what was delivered belongs to its receiver (a recorder stamps msg.time): edited, it must not come back when the same bytes -
            # or any others - are parsed afterwards
            for x in ma + mb:
                canon.scribble(x)
            mc = mido.parser.parse_all(P + enc)
            if pc.msgs_out(mc) != want or any(x.time != 0 for x in mc) or {id(x) for x in mc} & {id(x) for x in ma + mb}:
                fail = ('resync-aliasing', 'after the messages parsed from %r + %r were edited by their receiver, parsing the same bytes again gives %r (times %r)'
                        % (P, enc, pc.msgs_out(mc), [x.time for x in mc]))
    except Exception as e:  # noqa: BLE001
        fail = ('resync-raises', 'prefix %r + %r raised %r' % (P, enc, e))
    return out, fail, 'resync:' + canon.KINDS[mi[0]][0]


def impl_rtsysex(case):
    """case = the mixed stream F0 ... F7; oracle computed from the stream itself."""
    import mido
    out, _, _ = pc.impl_parse(case)
    fail = None
    inner = case[1:-1]
    data = [b for b in inner if b < 0x80]
    rts = [b for b in inner if b in pc.RT_DEFINED]
    try:
        ms = mido.parser.parse_all(case)
        got = [m.bytes() for m in ms]
        want = [[b] for b in rts] + [[0xf0] + data + [0xf7]]
        if got != want:
            fail = ('rt-in-sysex', 'stream %r parsed to %r, expected %r' % (case, got, want))
    except Exception as e:  # noqa: BLE001
        fail = ('rt-in-sysex-raises', '%r raised %r' % (case, e))
    return out, fail, 'rt-in-sysex'


def job(j):
    tag, cases = j
    return tag, core.eval_cases(pc.COMP_PARSE, cases, impl_resync if tag == 'resync' else impl_rtsysex, repeat=100, fresh=True)


def model_input(tag, case):
    if tag == 'resync':
        n = case[0]
        return case[1:1 + n] + canon.std_layout(case[1 + n:])
    return case


def prefix_messages(tag, case):
    import mido
    if tag != 'resync':
        return None
    try:
        return [m.bytes() for m in mido.parser.parse_all(case[1:1 + case[0]])]
    except Exception as e:  # noqa: BLE001
        return 'raises %s' % type(e).__name__


def job2(j):
    """eval_cases sends the case itself to the model; here the model input is derived from the case."""
    tag, cases = j
    impl = impl_resync if tag == 'resync' else impl_rtsysex
    rec = {'n': len(cases), 'dis': [], 'fail': [], 'dist': {}, 'hashes': set(), 'ndis': 0, 'nfail': 0}
    ios = []
    # "the messages of P" are taken before anything else is parsed, and once more afterwards: they are the messages of P, not of P and the
    # calls that went before (a parser whose answer for P changes with what the process has parsed earlier gives P + M something else than
    # the messages of P followed by M)
    before = [prefix_messages(tag, c) for c in cases]
    for c in cases:
        io, fail, t = impl(c)
        ios.append(io)
        rec['dist'][t] = rec['dist'].get(t, 0) + 1
        rec['hashes'].add(hash(tuple(c)))
        if fail:
            rec['nfail'] += 1
            if len(rec['fail']) < 20:
                rec['fail'].append((fail[0], fail[1], {'component': tag, 'case': c}))
    for c, b4 in zip(reversed(cases), reversed(before)):
        now = prefix_messages(tag, c)
        if now != b4:
            rec['nfail'] += 1
            if len(rec['fail']) < 20:
                P = c[1:1 + c[0]]
                rec['fail'].append(('resync-prefix-messages-change', 'the messages of the prefix %r were %r when it was first parsed and %r later in the same process: '
                                    'P followed by a message then yields something else than the messages of P followed by the message' % (P, b4, now), {'component': tag, 'case': c}))
    mos = core.model_run([(pc.COMP_PARSE, model_input(tag, c)) for c in cases])
    for c, io, mo in zip(cases, ios, mos):
        if io != mo:
            rec['ndis'] += 1
            if len(rec['dis']) < 20:
                rec['dis'].append((pc.COMP_PARSE, model_input(tag, c), io, mo))
    if rec['dis'] and not rec['fail']:
        core.history_search(rec, pc.impl_parse, [(case, io) for (_, case, io, _) in rec['dis'][:4]], comp=pc.COMP_PARSE)
    return tag, rec


def long_and_oneshot(out, rng):
    """implementation against the statement, for what the extracted model is too slow for or cannot carry: (a) a message M that is a very
    long sysex (65 534 .. 70 000 data bytes; a sysex has no length limit) after prefixes, in concatenations and with real-time bytes inside;
    (b) the stream handed over as a one-shot iterator / generator / itertools.chain (Parser.feed documents any iterable) and as bytes / bytearray / tuple / memoryview, the message taken from the boundary values half of the time"""
    import itertools
    import mido
    n = 0

    def expect(what, got, want):
        if [m.bytes() for m in got] != want:
            out.failures.append(('resync-long' if 'long' in what else 'resync-iterable', '%s: parsed into messages of lengths %r, expected %r'
                                 % (what, [len(m.bytes()) for m in got][:8], [len(w) for w in want][:8]), {'component': 'long-and-oneshot', 'what': what}))
    for size in ([65534, 65535, 65536, 70000] if out.tier == 'quick' else [4095, 65534, 65535, 65536, 65537, 70000, 131072, 200000]):
        body = [rng.randrange(128) for _ in range(size)]
        syx = [0xf0] + body + [0xf7]
        for P, pm in (([], []), ([0x90, 1], []), ([0xf0, 1, 2], []), ([0x80, 1, 2, 0xf2, 5], [[0x80, 1, 2]])):
            n += 1
            try:
                expect('long sysex (%d data bytes) after prefix %r' % (size, P), mido.parser.parse_all(P + syx), pm + [syx])
            except Exception as e:  # noqa: BLE001
                out.failures.append(('resync-long-raises', 'a sysex of %d data bytes after prefix %r raised %r' % (size, P, e), {'component': 'long-and-oneshot'}))
        n += 2
        try:
            expect('long sysex between two messages', mido.parser.parse_all([0x90, 1, 2] + syx + [0xc0, 5]), [[0x90, 1, 2], syx, [0xc0, 5]])
            k = rng.randrange(size)
            expect('long sysex with a real-time byte inside', mido.parser.parse_all([0xf0] + body[:k] + [0xfe] + body[k:] + [0xf7]), [[0xfe], syx])
        except Exception as e:  # noqa: BLE001
            out.failures.append(('resync-long-raises', 'a sysex of %d data bytes raised %r' % (size, e), {'component': 'long-and-oneshot'}))
    bnd = canon.boundary_messages()
    rng.shuffle(bnd)
    for trial in range(500):
        P = pc.random_stream(rng, 12)
        # every other message from the boundary values of its type (0, 1, 63, 64, 126, 127, ...): the containers below must not care
        mi = canon.random_message(rng, sysex_max=6) if trial % 2 else bnd[trial % len(bnd)]
        if mi[0] == 7 and mi[1] > 40:
            mi = [7, 3, 127, 0, 127]
        enc = canon.std_layout(mi)
        want = [m.bytes() for m in mido.parser.parse_all(P)] + [enc]
        for what, make in (('iter', lambda: iter(P + enc)), ('generator', lambda: (b for b in P + enc)), ('chain', lambda: itertools.chain(P, enc)), ('map', lambda: map(int, P + enc)),
                           ('bytes', lambda: bytes(P + enc)), ('bytearray', lambda: bytearray(P + enc)), ('tuple', lambda: tuple(P + enc)), ('memoryview', lambda: memoryview(bytes(P + enc)))):
            n += 1
            try:
                expect('prefix %r + %r given as %s' % (P, enc, what), mido.parser.parse_all(make()), want)
                p = mido.Parser()
                p.feed(make())
                expect('Parser.feed(%s) of prefix %r + %r' % (what, P, enc), list(p), want)
            except Exception as e:  # noqa: BLE001
                out.failures.append(('resync-iterable-raises', 'prefix %r + %r given as %s raised %r' % (P, enc, what, e), {'component': 'long-and-oneshot'}))
    out.evaluations += n
    out.components['long messages and one-shot iterables (implementation against the statement)'] = {'cases': n}


def run(out):
    rng = random.Random(out.seed)
    msgs = [m for m in canon.boundary_messages() if m[0] != 7 or m[1] <= 2]
    picked = []
    seen = {}
    for m in msgs:          # a few boundary messages per type
        seen.setdefault(m[0], [])
        if len(seen[m[0]]) < (4 if out.tier == 'quick' else 12):
            seen[m[0]].append(m); picked.append(m)
    prefixes = list(pc.all_strings(3 if out.tier == 'quick' else 4))
    prefixes += [[0x90, 0x11], [0xf2, 0x09], [0xf0, 0x31, 0x32], [0xe0, 5], [0xf0], [0xf1], [0x90, 1, 2, 3]]
    prefixes += [pc.random_stream(rng, 30) for _ in range(300 if out.tier == 'quick' else 3000)]
    cases = []
    for P in prefixes:
        for m in (picked if len(P) <= 3 else rng.sample(picked, 8)):
            cases.append([len(P)] + P + m)
    for _ in range(3000 if out.tier == 'quick' else 30000):
        P = pc.random_stream(rng, 20)
        cases.append([len(P)] + P + canon.random_message(rng, sysex_max=10))
    rtcases = []
    for n in range(0, 12 if out.tier == 'quick' else 41):
        data = [(7 * i + 3) % 128 for i in range(n)]
        for pos in range(n + 1):
            for rts in ([0xf8], [0xfe], [0xff], [0xf9], [0xfd], [0xfa, 0xfb], [0xfc, 0xf9, 0xff]):
                rtcases.append([0xf0] + data[:pos] + rts + data[pos:] + [0xf7])
        for _ in range(20):
            mixed = list(data)
            for _ in range(rng.randrange(1, 6)):
                mixed.insert(rng.randrange(len(mixed) + 1), rng.randrange(0xf8, 0x100))
            rtcases.append([0xf0] + mixed + [0xf7])
    jobs = []
    step = max(1, len(cases) // core.NPROC)
    jobs += [('resync', cases[i:i + step]) for i in range(0, len(cases), step)]
    step = max(1, len(rtcases) // 4)
    jobs += [('rtsysex', rtcases[i:i + step]) for i in range(0, len(rtcases), step)]
    for tag, rec in core.pmap(job2, jobs):
        core.merge_into(out, rec, tag)
    long_and_oneshot(out, rng)
    out.rule = ('prefix P + encoding of M: every string of length <= %d over the 17-symbol class alphabet, cut-short messages, open sysex and '
                'random streams as P, with boundary messages of all 18 types as M (%d cases); sysex payloads of length 0..%d with 1-5 '
                'real-time bytes (defined and undefined) inserted at every position (%d cases). Oracle: parse_all(P+enc M) == parse_all(P)+[M]; '
                'real-time messages first, payload unchanged. Non-trivial: non-zero content; distinct by content.'
                % (3 if out.tier == 'quick' else 4, len(cases), 11 if out.tier == 'quick' else 40, len(rtcases)))
    out.sample({'component': 'resync', 'case': cases[5000]})
    out.sample({'component': 'rtsysex', 'case': rtcases[100]})
    core.kernel_crosscheck(out, [(pc.COMP_PARSE, model_input('resync', c)) for c in rng.sample(cases, 150)] +
                           [(pc.COMP_PARSE, c) for c in rng.sample(rtcases, 50)], 'C06')
