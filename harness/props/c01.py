"""C01 — message byte codec round trip: correspondence of Model/Codec.v with mido.messages + oracle."""
import random

import canon
import core

COMP_CODEC, COMP_HEX = 1, 2
THEOREMS_DEPEND_ON = ['Gen/AgreeCodec.v']


def time_of(tok):
    return tok if tok % 2 == 0 else tok + 0.5


def impl_codec(case):
    """case = [kind, attrs..., timetoken].  Returns (ints, failure, tag)."""
    import mido
    ints, tok = case[:-1], case[-1]
    name, kw, _ = canon.kwargs_of(ints)
    t = time_of(tok)
    fail = None
    canon.noise()           # a refused call before this one: it must make no difference
    try:
        m = mido.Message(name, time=t, **kw)
        canon.observe(m)        # asked about itself first: that is not an edit
        bs = m.bytes()
        ln = len(m)
        out = canon.out_list(bs) + [ln] + canon.out_list(canon.std_layout(ints)) + [canon.std_status(ints)]
        try:
            m2 = mido.Message.from_bytes(bs, time=t)
            t2 = vars(m2).get('time')
            tt = tok if (t2 == t and type(t2) is type(t)) else -999
            out += [0] + canon.msg_ints(m2) + [tt]
        except Exception as e:  # noqa: BLE001
            m2 = None
            out += [-1, core.exn_code(e)]
        # ---- oracle: the property text, evaluated directly on the implementation
        why = None
        std = canon.std_layout(ints)
        if list(bs) != std:
            why = 'bytes() %r is not the standard layout %r' % (list(bs), std)
        elif not (len(bs) >= 1 and bs[0] >= 0x80 and all(0 <= b < 0x80 for b in (bs[1:-1] if name == 'sysex' else bs[1:]))):
            why = 'bytes() %r is not a well-formed message' % (list(bs),)
        elif name == 'sysex' and bs[-1] != 0xf7:
            why = 'sysex not terminated by F7'
        elif ln != len(bs):
            why = 'len(m) = %d but %d bytes' % (ln, len(bs))
        elif m2 is None:
            why = 'from_bytes(bytes()) raised'
        elif not (m2 == m and m2.type == name and type(m2.time) is type(t)):
            why = 'from_bytes(bytes()) = %r differs from %r' % (m2, m)
        elif bytes(m.bin()) != bytes(bs):
            why = 'bin() differs from bytes()'
        elif not (mido.Message.from_bytes(m.bin(), time=t) == m):
            why = 'from_bytes(bin()) differs'
        if not why:
            # what bytes()/bin() hand out belongs to the caller: changing it must not change what the next call returns
            # (for this message or for another one of the same type)
            snapshot = list(bs)
            try:
                bs.extend([0x90, 60, 100])
            except AttributeError:
                pass
            bb = m.bin()
            if isinstance(bb, bytearray):
                bb.extend(b'\x90\x3c\x64')
            again = list(mido.Message(name, time=t, **kw).bytes())
            if again != snapshot or list(m.bytes()) != snapshot or bytes(m.bin()) != bytes(snapshot):
                why = 'after the list returned by bytes() was modified by its caller, bytes() returns %r instead of %r' % (again, snapshot)
        if not why:
            # ... and the decoded message belongs to its caller as well: edited, it must not come back from the next decoding of the same bytes
            canon.scribble(m2)
            m3 = mido.Message.from_bytes(snapshot, time=t)
            if m3 is m2 or not (m3 == m):
                why = 'after the message returned by from_bytes was edited by its caller, from_bytes(%r) returns %r' % (snapshot, m3)
        if why:
            fail = ('codec:' + name, '%s with %r time=%r: %s' % (name, kw, t, why))
    except Exception as e:  # noqa: BLE001
        out = [-1, core.exn_code(e)]
        fail = ('codec-raise:' + name, '%s with %r raised %r' % (name, kw, e))
    return out, fail, name


def impl_hex(case):
    """case = [seplen, sep..., given, kind, attrs..., timetoken]."""
    import mido
    n = case[0]
    sep = ''.join(map(chr, case[1:1 + n]))
    given = case[1 + n]
    ints, tok = case[2 + n:-1], case[-1]
    name, kw, _ = canon.kwargs_of(ints)
    t = time_of(tok)
    fail = None
    canon.noise()
    try:
        m = mido.Message(name, time=t, **kw)
        txt = m.hex(sep)
        out = canon.out_list([ord(c) for c in txt])
        try:
            m2 = mido.Message.from_hex(txt, time=t, sep=sep) if given else mido.Message.from_hex(txt, time=t)
            t2 = m2.time
            tt = tok if (t2 == t and type(t2) is type(t)) else -999
            out += [0] + canon.msg_ints(m2) + [tt]
            if not (m2 == m):
                fail = ('hex:' + name, 'from_hex(hex(%r, %r)) = %r' % (m, sep, m2))
            else:
                canon.scribble(m2)
                m3 = mido.Message.from_hex(txt, time=t, sep=sep) if given else mido.Message.from_hex(txt, time=t)
                if m3 is m2 or not (m3 == m):
                    fail = ('hex:' + name, 'after the message returned by from_hex was edited by its caller, from_hex(%r) returns %r' % (txt, m3))
        except Exception as e:  # noqa: BLE001
            out += [-1, core.exn_code(e)]
            fail = ('hex:' + name, 'from_hex(%r, sep=%r) raised %r for %r' % (txt, sep if given else None, e, m))
        exp = sep.join('%02X' % b for b in canon.std_layout(ints))
        if txt != exp and fail is None:
            fail = ('hex:' + name, 'hex() = %r, expected %r' % (txt, exp))
    except Exception as e:  # noqa: BLE001
        out = [-1, core.exn_code(e)]
        fail = ('hex-raise:' + name, '%r' % (e,))
    return out, fail, 'hex:' + name


def _job(job):
    kind, arg = job
    if kind == 'range':
        lo, hi = arg
        cases = [canon.nth_message(i) + [i % 7] for i in range(lo, hi)]
        rec = core.eval_cases(COMP_CODEC, cases, impl_codec, max_keep=5, repeat=60, fresh=True)
        rec['hashes'] = set()          # distinct by construction; counted, not stored
        rec['distinct'] = sum(1 for c in cases if any(c[1:-1]))
        return 'codec', rec
    if kind == 'codec':
        rec = core.eval_cases(COMP_CODEC, arg, impl_codec, repeat=60, fresh=True)
        rec['distinct'] = None
        return 'codec', rec
    if kind == 'hex':
        rec = core.eval_cases(COMP_HEX, arg, impl_hex, repeat=60, fresh=True)
        rec['distinct'] = None
        return 'hex', rec
    raise ValueError(kind)


SEPS_OK = ['', ' ', ':', '-', ',', '\t', '\n', '|', ' ', 'x', 'g', '\\', ']', '[', '^', '.', '*', '+', '(', ')', '$', '?', '{', '}', '/', '_', '%']      # the theorem's domain (sep given to both)
SEPS_MULTI = [', ', ' - ', '::', '\r\n', '  ', '--', '->', '-]', ' | ', '; ', ' ,', '\\d', '[^', '\\s', '%s', '{}']                               # correspondence only


def run(out):
    rng = random.Random(out.seed)
    jobs = []
    # corpus + boundary + random (both tiers)
    cases = [m + [rng.randrange(100)] for m in canon.boundary_messages()]
    nrand = 20000 if out.tier == 'quick' else 100000
    cases += [canon.random_message(rng, sysex_max=300) + [rng.randrange(100)] for _ in range(nrand)]
    for n in (2000, 5000):
        cases.append([7, n] + [rng.randrange(128) for _ in range(n)] + [1])
    step = max(1, len(cases) // core.NPROC)
    jobs += [('codec', cases[i:i + step]) for i in range(0, len(cases), step)]
    hexcases = []
    msgs = canon.boundary_messages()
    for i, m in enumerate(msgs):
        if i % 5 == 0 or m[0] == 7:
            for sep in SEPS_OK + SEPS_MULTI:
                hexcases.append([len(sep)] + [ord(c) for c in sep] + [1] + m + [i % 5])
            for sep in [' ', '\t', '\n', '']:
                hexcases.append([len(sep)] + [ord(c) for c in sep] + [0] + m + [i % 5])
    step = max(1, len(hexcases) // core.NPROC)
    jobs += [('hex', hexcases[i:i + step]) for i in range(0, len(hexcases), step)]
    if out.tier == 'thorough':
        n = canon.SPACE_SIZE
        step = 20000
        jobs += [('range', (i, min(n, i + step))) for i in range(0, n, step)]
        out.exhaustive = True
    else:
        # stratified slice of the complete space: every 23rd message
        n = canon.SPACE_SIZE
        strat = [canon.nth_message(i) + [i % 7] for i in range(0, n, 23)]
        step = max(1, len(strat) // core.NPROC)
        jobs += [('codec', strat[i:i + step]) for i in range(0, len(strat), step)]
    extra_distinct = 0
    for comp, rec in core.pmap(_job, jobs):
        if rec.get('distinct') is not None:
            extra_distinct += rec['distinct']
        core.merge_into(out, rec, comp)
    out.nontrivial_extra = extra_distinct
    out.rule = ('cases = [kind, attributes..., time token]; boundary grid of every attribute of all 18 types, random '
                'messages (sysex up to 5000 bytes), a stratified slice (quick) or the COMPLETE 1 331 463-message space '
                '(thorough); each through bytes(), bin(), len(), from_bytes(time=int|float), and hex()/from_hex() with '
                '%d separators.  A case is non-trivial when some attribute is non-zero; distinct by (kind, attributes, token).'
                % (len(SEPS_OK) + len(SEPS_MULTI)))
    out.sample({'component': 'codec', 'case': cases[17]})
    out.sample({'component': 'codec', 'case': cases[-3][:12] + ['...']})
    out.sample({'component': 'hex', 'case': hexcases[5]})
    core.kernel_crosscheck(out, [(COMP_CODEC, c) for c in rng.sample(cases[:5000], 150)] +
                           [(COMP_HEX, c) for c in rng.sample(hexcases, 50)], 'C01')
    out.assumptions += ['the theorem C01_hex covers empty and one-character non-hex-digit separators; multi-character '
                        'separators are compared by the correspondence only',
                        'float times are passed through untouched (the codec never inspects time); modelled as an opaque token']
