"""MANIFEST.setup_cmd: build the Coq development, the extracted model and the driver from files on disk."""
import os
import sys

sys.path.insert(0, os.path.dirname(os.path.abspath(__file__)))
import core  # noqa: E402

info = core.build()
print('build: %.1fs, make rc=%s, not built: %s' % (info['build_s'], info['make_rc'], info['missing_vo']))
if info['make_rc'] != 0:
    print(info.get('make_tail', ''))
sys.exit(0 if info['make_rc'] == 0 and not info['missing_vo'] else 1)
