"""Deterministic scheduler for real Python threads running the real mido/ports.py.

Every access to what the threads share (the port's lock, its message deque, the device double, ports.sleep) is a yield point:
the thread stops BEFORE the access and the scheduler decides which thread performs its pending access next.  One scheduling
step = the chosen thread performs that one access and runs on to just before its next one - the same unit as one step of
Model/Conc.v, so a schedule (list of thread ids) means the same thing on both sides.
"""
import collections
import threading


class Stop(BaseException):
    """raised inside a parked worker when the run is being torn down"""


_tls = threading.local()


def cur():
    return getattr(_tls, 'tid', None)


class Sched:
    def __init__(self, n):
        self.n = n
        self.go = [threading.Semaphore(0) for _ in range(n)]
        self.back = threading.Semaphore(0)
        self.state = ['new'] * n            # parked / blocked / sleeping / done
        self.waiting_for = [None] * n       # the SchedLock a blocked thread wants
        self.stopping = False
        self.finished = False               # set by stop(): objects of this run met later (garbage collection) are not scheduled
        self.trace = []
        self.threads = []
        self.outcome = [None] * n
        self.results = [[] for _ in range(n)]

    # ---- worker side ----
    def yield_point(self, kind='parked', lock=None):
        t = cur()
        if t is None or self.finished:
            return                          # the main thread (set-up, final drain) is not scheduled
        self.state[t] = kind
        self.waiting_for[t] = lock
        self.back.release()
        self.go[t].acquire()
        if self.stopping:
            raise Stop()

    # ---- main side ----
    def start(self, bodies):
        for t, body in enumerate(bodies):
            th = threading.Thread(target=self._wrap, args=(t, body), daemon=True)
            self.threads.append(th)
            th.start()
            self.back.acquire()             # priming: run to just before the first shared access

    def _wrap(self, t, body):
        _tls.tid = t
        try:
            body(self.results[t])
            self.outcome[t] = ('done', None)
        except Stop:
            self.outcome[t] = ('stopped', None)
        except BaseException as e:  # noqa: BLE001
            self.outcome[t] = ('raised', e)
        finally:
            self.state[t] = 'done'
            self.back.release()

    def enabled(self, t):
        if self.state[t] == 'done':
            return False
        lk = self.waiting_for[t]
        return lk is None or lk.owner is None or lk.owner == t

    def step(self, t):
        """one scheduling step of thread t (a no-op if it is finished; a blocked thread re-checks its lock and parks again)"""
        self.trace.append(t)
        if self.state[t] == 'done':
            return
        self.go[t].release()
        self.back.acquire()

    def stop(self):
        self.stopping = True
        for t in range(self.n):
            if self.state[t] != 'done':
                self.go[t].release()
                self.back.acquire()
        for th in self.threads:
            th.join(5)
        self.finished = True


class SchedLock:
    """stands in for the port's RLock: acquiring and releasing are yield points"""

    def __init__(self, sched):
        self.sched, self.owner, self.count = sched, None, 0

    def __enter__(self):
        t = cur()
        if t is None or self.sched.finished:
            return self
        self.sched.yield_point('parked', self)
        while self.owner is not None and self.owner != t:
            self.sched.yield_point('blocked', self)          # scheduled while the lock is taken: a no-op step
        self.sched.waiting_for[t] = None
        self.owner = t
        self.count += 1
        return self

    def __exit__(self, etype, evalue, tb):
        t = cur()
        if t is None or self.sched.finished:
            return False
        if etype is None and not self.sched.stopping:
            try:
                self.sched.yield_point('parked')
            except Stop:
                self.count -= 1
                if self.count == 0:
                    self.owner = None
                raise
        self.count -= 1
        if self.count == 0:
            self.owner = None
        return False

    # threading.RLock interface, in case the code under test uses it directly
    def acquire(self, blocking=True, timeout=-1):
        self.__enter__()
        return True

    def release(self):
        self.__exit__(None, None, None)


class DequeProxy:
    """stands in for the port's message deque: truth test, popleft, append and extend are yield points"""

    def __init__(self, sched, real, log=None):
        self.sched, self.real, self.log = sched, real, log if log is not None else []
        self.batch = None           # a list while additions are being collected (see collect / flush)

    def __bool__(self):
        self.sched.yield_point()
        return bool(self.real)

    def __len__(self):
        return len(self.real)

    def popleft(self):
        self.sched.yield_point()
        m = self.real.popleft()
        self.log.append(m)
        return m

    def append(self, x):
        if self.batch is not None:
            self.batch.append(x)
            return
        self.sched.yield_point()
        self.real.append(x)

    def extend(self, it):
        items = list(it)
        if self.batch is not None:
            self.batch.extend(items)
            return
        self.sched.yield_point()
        self.real.extend(items)

    # A port that fills its own deque from inside _receive (MultiPort) does so under its lock, where nobody else can see the deque:
    # whether it adds what it collected with one extend() or with an append() per message is not observable.  The harness brackets such
    # a _receive with collect() / flush(): the additions become ONE access (one yield point) at the end, whichever way they were made.
    def collect(self):
        self.batch = []

    def flush(self):
        items, self.batch = self.batch or [], None
        self.sched.yield_point()
        self.real.extend(items)

    def __iter__(self):
        return iter(collections.deque(self.real))

    def clear(self):
        self.real.clear()
