(* modelrun — line protocol around the extracted model.
   stdin:  one case per line: "<comp> <int> <int> ..."   (decimal, arbitrary precision)
   stdout: one line per case:  "<int> <int> ..."
   Only conversions between decimal text and the extracted Z live here. *)
let rec pos_of_z (n : Z.t) : Model.positive =
  if Z.equal n Z.one then Model.XH
  else if Z.is_even n then Model.XO (pos_of_z (Z.shift_right n 1))
  else Model.XI (pos_of_z (Z.shift_right n 1))
let coq_of_z (n : Z.t) : Model.z =
  if Z.sign n = 0 then Model.Z0 else if Z.sign n > 0 then Model.Zpos (pos_of_z n) else Model.Zneg (pos_of_z (Z.neg n))
let rec z_of_pos (p : Model.positive) : Z.t =
  match p with
  | Model.XH -> Z.one
  | Model.XO q -> Z.shift_left (z_of_pos q) 1
  | Model.XI q -> Z.succ (Z.shift_left (z_of_pos q) 1)
let z_of_coq (c : Model.z) : Z.t =
  match c with Model.Z0 -> Z.zero | Model.Zpos p -> z_of_pos p | Model.Zneg p -> Z.neg (z_of_pos p)

let () =
  let buf = Buffer.create 65536 in
  (try
    while true do
      let line = input_line stdin in
      let toks = List.filter (fun s -> s <> "") (String.split_on_char ' ' line) in
      (match toks with
       | [] -> print_string "\n"
       | c :: rest ->
         let comp = coq_of_z (Z.of_string c) in
         let inp = List.map (fun s -> coq_of_z (Z.of_string s)) rest in
         let out = Model.run comp inp in
         Buffer.clear buf;
         List.iteri (fun i x -> if i > 0 then Buffer.add_char buf ' '; Buffer.add_string buf (Z.to_string (z_of_coq x))) out;
         Buffer.add_char buf '\n';
         print_string (Buffer.contents buf));
      if toks = ["flush"] then flush stdout
    done
  with End_of_file -> ());
  flush stdout
